"""Isotherm fixtures with symbolic contents + the interp1d stub."""
import logging

import numpy
import pandas

from . import symx, stubs


def quiet():
    logging.getLogger('pygaps').setLevel(logging.CRITICAL)


DEFAULT_UNITS = dict(pressure_mode='absolute', pressure_unit='bar', loading_basis='molar', loading_unit='mmol',
                     material_basis='mass', material_unit='g', temperature_unit='K')


def sym_material(h, name='symmat', with_props=True):
    from pygaps.core.material import Material
    mat = Material(name)
    if with_props:
        mat.properties['density'] = h.real('mat_density', pos=True)
        mat.properties['molar_mass'] = h.real('mat_molar_mass', pos=True)
    return mat


def sym_env(h, tag='f'):
    """temperature + FakeState adsorbate with positivity assumptions"""
    quiet()
    T = h.real('T', pos=True)
    ads = stubs.fake_adsorbate(h, 'fakegas', tag)
    if h.sym:
        ads._state.positivity(T)
    return T, ads


def column(h, values):
    if h.sym:
        a = numpy.empty(len(values), dtype=object)
        for i, v in enumerate(values):
            a[i] = v
        return a.view(symx.SymArray)
    return numpy.array([float(v) for v in values], dtype=float)


def point_iso(h, pressures, loadings, units=None, ads=None, mat=None, T=None, branch=None, extra=None,
              index=None, properties=None):
    """A real PointIsotherm built through its real constructor (so that every attribute the constructor
    defines exists); the temperature is passed as a placeholder and replaced by the symbolic value because
    the setter calls float()."""
    from pygaps.core.pointisotherm import PointIsotherm
    quiet()
    u = dict(DEFAULT_UNITS)
    u.update(units or {})
    d = {'pressure': column(h, pressures), 'loading': column(h, loadings),
         'branch': list(branch) if branch is not None else [0] * len(pressures)}
    if extra:
        for k, v in extra.items():
            d[k] = v
    df = pandas.DataFrame(d, index=index)
    iso = PointIsotherm(isotherm_data=df, pressure_key='pressure', loading_key='loading',
                        material=mat if mat is not None else sym_material(h), adsorbate='fakegas-placeholder',
                        temperature=300.0, **u, **dict(properties or {}))
    iso._temperature = T
    iso._adsorbate = ads      # (an Adsorbate instance cannot be passed: the constructor's `None in [...]` calls ads == None)
    return iso


def model_iso(h, model, units=None, ads=None, mat=None, T=None, branch='ads', properties=None):
    from pygaps.core.modelisotherm import ModelIsotherm
    quiet()
    u = dict(DEFAULT_UNITS)
    u.update(units or {})
    iso = ModelIsotherm(model=model, branch=branch, material=mat if mat is not None else sym_material(h),
                        adsorbate='fakegas-placeholder', temperature=300.0, **u, **dict(properties or {}))
    iso._temperature = T
    iso._adsorbate = ads
    return iso


# --------------------------------------------------------------------------
class FakeInterp1d:
    """scipy.interpolate.interp1d stand-in.

    kind='linear': explicit piecewise-linear interpolation on the (symbolic) data, forking on the
    segment that contains the query; other kinds: uninterpreted function with the interpolation
    contract f(x_i) = y_i.  bounds_error/fill_value follow scipy: outside [min, max] raises ValueError
    unless bounds_error is False (then fill_value: scalar, (below, above) or 'extrapolate').
    In concrete mode the real scipy class is used."""
    instances = []
    h = None

    def __new__(cls, x, y, kind='linear', axis=-1, copy=True, bounds_error=None, fill_value=numpy.nan,
                assume_sorted=False):
        h = cls.h
        if h is None or not h.sym:
            from scipy.interpolate import interp1d as real
            obj = real(numpy.asarray(x, dtype=float), numpy.asarray(y, dtype=float), kind=kind,
                       bounds_error=bounds_error, fill_value=fill_value, assume_sorted=assume_sorted)
            cls.instances.append(dict(x=list(x), y=list(y), kind=kind, bounds_error=bounds_error, fill_value=fill_value, real=obj))
            return obj
        return super().__new__(cls)

    def __init__(self, x, y, kind='linear', axis=-1, copy=True, bounds_error=None, fill_value=numpy.nan,
                 assume_sorted=False):
        self.x = list(numpy.asarray(x, dtype=object).ravel())
        self.y = list(numpy.asarray(y, dtype=object).ravel())
        self.kind = kind
        self.fill_value = fill_value
        if isinstance(fill_value, str) and fill_value == 'extrapolate':
            if bounds_error:
                raise symx.simulated(ValueError("Cannot extrapolate and raise at the same time."))
            bounds_error = False
        if bounds_error is None:
            bounds_error = True
        self.bounds_error = bounds_error
        if len(self.x) != len(self.y):
            raise symx.simulated(ValueError('x and y arrays must be equal in length along interpolation axis.'))
        if len(self.x) < 2 and kind == 'linear':
            raise symx.simulated(ValueError('x and y arrays must have at least 2 entries'))
        # sort by x (scipy: assume_sorted=False) - forks on symbolic order
        if not assume_sorted:
            idx = list(range(len(self.x)))
            for i in range(1, len(idx)):           # insertion sort with symbolic comparisons
                j = i
                while j > 0 and (self.x[idx[j - 1]] > self.x[idx[j]]):
                    idx[j - 1], idx[j] = idx[j], idx[j - 1]
                    j -= 1
            self.x = [self.x[i] for i in idx]
            self.y = [self.y[i] for i in idx]
        self.uid = len(FakeInterp1d.instances)
        FakeInterp1d.instances.append(dict(x=self.x, y=self.y, kind=kind, bounds_error=bounds_error, fill_value=fill_value, obj=self))

    def _fill(self, below):
        fv = self.fill_value
        if isinstance(fv, tuple):
            return fv[0] if below else fv[1]
        return fv

    def _eval(self, q):
        x, y = self.x, self.y
        n = len(x)
        if q < x[0]:
            if self.bounds_error:
                raise symx.simulated(ValueError('A value in x_new is below the interpolation range.'))
            if isinstance(self.fill_value, str):
                return self._lin(0, q) if self.kind == 'linear' else FakeInterp1d.h.fun(f'interp_{self.kind}', q, *self.x, *self.y)
            return self._fill(True)
        if q > x[n - 1]:
            if self.bounds_error:
                raise symx.simulated(ValueError('A value in x_new is above the interpolation range.'))
            if isinstance(self.fill_value, str):
                return self._lin(n - 2, q) if self.kind == 'linear' else FakeInterp1d.h.fun(f'interp_{self.kind}', q, *self.x, *self.y)
            return self._fill(False)
        if self.kind != 'linear':
            for i in range(n):
                if q == x[i]:
                    return y[i]
            return FakeInterp1d.h.fun(f'interp_{self.kind}', q, *self.x, *self.y)
        for i in range(n - 1):
            if q <= x[i + 1]:
                return self._lin(i, q)
        raise symx.Unsupported('interp1d stub: unreachable')

    def _lin(self, i, q):
        x, y = self.x, self.y
        return y[i] + (y[i + 1] - y[i]) * (q - x[i]) / (x[i + 1] - x[i])

    def __call__(self, xnew):
        a = numpy.asarray(xnew, dtype=object)
        if a.ndim == 0:
            r = numpy.empty((), dtype=object)
            r[()] = self._eval(a.item())
            return r
        out = numpy.empty(a.shape, dtype=object)
        for idx in numpy.ndindex(a.shape):
            out[idx] = self._eval(a[idx])
        return out


def interp_patch(h):
    import pygaps.utilities.isotherm_interpolator as ii
    FakeInterp1d.h = h
    FakeInterp1d.instances = []
    return stubs.patched((ii, 'interp1d', FakeInterp1d))


def increasing(h, names, lo=None):
    """symbolic strictly increasing positive reals"""
    vals = []
    prev = lo
    for n in names:
        v = h.real(n, pos=True)
        if prev is not None:
            h.assume(v > prev)
        vals.append(v)
        prev = v
    return vals
