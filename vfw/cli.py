"""./check <property> [--tier quick|thorough] [--replay file] [--only substr] [-j N]

exit 0: every obligation discharged (known findings printed as KNOWN-FINDING)
exit 1: VIOLATION property=<id> replay=<path>  (solver model reproduced on the real code)
exit 2: harness error (vacuous harness, unsupported operation, model that does not replay)
"""
import argparse
import importlib
import json
import multiprocessing
import os
import re
import signal
import sys
import time

from . import core

VERIF = core.VERIF


def load_findings():
    p = os.path.join(VERIF, 'known_findings.json')
    if not os.path.exists(p):
        return []
    with open(p) as f:
        return json.load(f).get('findings', [])


def _work(arg):
    prop, idx, tier = arg
    import warnings
    warnings.simplefilter('ignore')
    mod = importlib.import_module(f'vfw.props.{prop.lower()}')
    obs = mod.obligations(tier)
    ob = obs[idx]
    findings = load_findings()
    import signal

    def _alarm(signum, frame):
        from . import symx
        raise symx.Budget('obligation wall-clock limit')
    signal.signal(signal.SIGALRM, _alarm)
    signal.alarm(int(getattr(ob, 'wall_s', 600) * 2 + 120))
    try:
        if ob.kind == 'symx':
            return core.discharge(ob, findings, prop, tier)
        return ob.func(ob, findings, prop, tier)      # custom engines (crosshair, z3 direct)
    except BaseException as e:   # noqa: BLE001
        import traceback
        from . import symx
        if isinstance(e, symx.Budget):  # time/path budget exhausted: inconclusive (reported, never success), not a harness fault
            return _blank(ob.oid, inconclusive=[f'{ob.oid}: {e} (whole obligation undecided)'], notes=[traceback.format_exc(limit=10)])
        return _blank(ob.oid, harness_errors=[f'{ob.oid}: worker crashed: {type(e).__name__}: {e}'], notes=[traceback.format_exc(limit=10)])


def _blank(oid, harness_errors=(), inconclusive=(), notes=()):
    return {'oid': oid, 'harness_errors': list(harness_errors), 'notes': list(notes), 'paths': 0, 'claims': 0, 'unsat': 0, 'sat': 0,
            'unknown': 1 if inconclusive else 0, 'trivial': 0, 'violations': [], 'known': [], 'unconfirmed': [],
            'inconclusive': list(inconclusive), 'validated': 0, 'replays': 0, 'samples': [], 'solver_s': 0.0, 'wall_s': 0.0,
            'decisions': 0, 'feas_queries': 0, 'feas_unknown': 0, 'reach': 0, 'bounds': '', 'stubs': [], 'funcs': []}


def _child(arg, conn):
    try:
        os.setsid()       # own process group: a hard kill takes the concrete-run server and its children along
    except OSError:
        pass
    try:
        conn.send(_work(arg))
    finally:
        conn.close()


def run_all(prop, idxs, tier, obs, jobs, verbose=False):
    """One forked process per obligation (stubs are monkey-patched module globals and must not leak).  A z3 call that ignores
    its timeout also blocks the in-process SIGALRM handler, so the parent enforces a hard limit: an obligation still running
    60 s after its own alarm is killed and reported as INCONCLUSIVE (never as success)."""
    from multiprocessing import connection
    ctx = multiprocessing.get_context('fork')
    pending = list(idxs)
    running = {}
    results = []
    while pending or running:
        while pending and len(running) < jobs:
            i = pending.pop(0)
            rd, wr = ctx.Pipe(duplex=False)
            p = ctx.Process(target=_child, args=((prop, i, tier), wr))
            p.start()
            wr.close()
            limit = int(getattr(obs[i], 'wall_s', 600) * 2 + 120) + 60
            running[p.pid] = (p, rd, i, time.time(), limit)
        ready = connection.wait([v[1] for v in running.values()], timeout=0.5)
        for pid, (p, rd, i, ts, limit) in list(running.items()):
            r = None
            if rd in ready:
                try:
                    r = rd.recv()
                except EOFError:
                    r = _blank(obs[i].oid, harness_errors=[f'{obs[i].oid}: worker died without a result'])
                p.join()
            elif time.time() - ts > limit:
                try:
                    os.killpg(p.pid, signal.SIGKILL)
                except OSError:
                    p.kill()
                p.join()
                r = _blank(obs[i].oid, inconclusive=[f'{obs[i].oid}: hard wall-clock limit of {limit} s (solver did not return; whole obligation undecided)'])
            if r is not None:
                rd.close()
                del running[pid]
                results.append(r)
                if verbose:
                    print(f"  [{r['oid']}] paths={r['paths']} claims={r['claims']} unsat={r['unsat']} sat={r['sat']} "
                          f"unknown={r['unknown']} wall={r['wall_s']:.1f}s", flush=True)
    return results


def _safe(s):
    return re.sub(r'[^A-Za-z0-9_.-]+', '_', s)[:120]


def main(argv=None):
    ap = argparse.ArgumentParser()
    ap.add_argument('prop')
    ap.add_argument('--tier', default=os.environ.get('VERIF_TIER', 'quick'))
    ap.add_argument('--replay')
    ap.add_argument('--only')
    ap.add_argument('-j', type=int, default=int(os.environ.get('VERIF_JOBS', '16')))
    ap.add_argument('--no-evidence', action='store_true')
    a = ap.parse_args(argv)
    prop = a.prop.upper()
    tier = a.tier if a.tier in ('quick', 'thorough') else 'quick'
    seed = int(os.environ.get('VERIF_SEED', '0') or 0)
    t0 = time.time()
    import pygaps  # noqa: F401  (imported before forking so that workers inherit the loaded package)
    import pygaps.modelling, pygaps.characterisation, pygaps.iast, pygaps.parsing  # noqa: F401,E401
    mod = importlib.import_module(f'vfw.props.{prop.lower()}')

    if a.replay:
        return replay(mod, prop, a.replay)

    obs = mod.obligations(tier)
    idxs = [i for i, o in enumerate(obs) if not a.only or a.only in o.oid]
    results = run_all(prop, idxs, tier, obs, min(a.j, max(1, len(idxs))), verbose=bool(os.environ.get('VERIF_VERBOSE')))
    results.sort(key=lambda r: r['oid'])

    rc = 0
    viol = []
    for r in results:
        for v in r['violations']:
            d = os.path.join(VERIF, 'replays', prop)
            os.makedirs(d, exist_ok=True)
            path = os.path.join(d, _safe(v['claim']) + '.json')
            v = dict(v, property=prop, tier=tier)
            with open(path, 'w') as f:
                json.dump(v, f, indent=1, default=str)
            viol.append((v, path))
    known_seen = set()
    for r in results:
        for k in r['known']:
            key = (k['pattern'], k['region'])
            if key in known_seen:
                continue
            known_seen.add(key)
            print(f"KNOWN-FINDING: property={prop} {k['what']} [claim={k['claim']} region={k['region']}]")
    herr = [e for r in results for e in r['harness_errors']]
    unconf = [u for r in results for u in r['unconfirmed']]
    valmis = [(r['oid'], r['val_mismatch']) for r in results if r.get('val_mismatch')]
    inconc = [e for r in results for e in r['inconclusive']]
    for v, path in viol[:25]:
        print(f"VIOLATION property={prop} replay={path}")
        print(f"  claim={v['claim']} info={v['info']}")
    if viol:
        rc = 1
    for e in herr[:20]:
        print(f'HARNESS-ERROR {e}')
    for u in unconf[:8]:
        print(f"UNCONFIRMED property={prop} claim={u['claim']} (solver model did not reproduce on the real code) env={json.dumps(u['env'])[:400]}")
    for oid, vm in valmis:
        print(f'ENCODING-MISMATCH {oid}: {json.dumps(vm, default=str)[:600]}')
    for e in inconc[:20]:
        print(f'INCONCLUSIVE {e}')
    if rc == 0 and (herr or unconf or valmis):
        rc = 2
    if os.environ.get('VERIF_VERBOSE'):
        for r in results:
            for n in r.get('notes', []):
                print(n)

    if not a.no_evidence and not a.only:
        write_evidence(prop, tier, seed, results, time.time() - t0, len(viol), mod)
    tot = {k: sum(r[k] for r in results) for k in ('paths', 'claims', 'unsat', 'sat', 'unknown', 'validated', 'replays')}
    print(f"{prop} [{tier}] obligations={len(results)} paths={tot['paths']} claims={tot['claims']} unsat={tot['unsat']} "
          f"sat={tot['sat']} unknown={tot['unknown']} validated={tot['validated']} replays={tot['replays']} "
          f"known={len(known_seen)} wall={time.time() - t0:.1f}s rc={rc}")
    return rc


def write_evidence(prop, tier, seed, results, wall, nviol, mod):
    funcs = sorted({f for r in results for f in r['funcs']})
    samples = []
    for r in results:
        for s in r['samples'][:1]:
            samples.append(dict(s, obligation=r['oid']))
        if len(samples) >= 12:
            break
    if not samples:
        samples = [{'note': 'no claims decided'}]
    cov = {
        'states': max(1, sum(r['paths'] for r in results)),
        'transitions': max(1, sum(r['decisions'] for r in results)),
        'traces_validated_against_impl': sum(r['validated'] + r['replays'] for r in results),
        'samples': samples,
        'obligations': sum(r['claims'] for r in results),
        'discharged': sum(r['unsat'] for r in results),
        'sat_known_or_violation': sum(r['sat'] for r in results),
        'unknown': sum(r['unknown'] for r in results),
        'trivially_true_claims': sum(r['trivial'] for r in results),
        'obligation_groups': len(results),
        'branch_feasibility_queries': sum(r['feas_queries'] for r in results),
        'branch_feasibility_unknown': sum(r['feas_unknown'] for r in results),
        'reachability_witnesses': sum(r['reach'] for r in results),
        'solver_seconds': round(sum(r['solver_s'] for r in results), 2),
        'cpu_wall_seconds_sum': round(sum(r['wall_s'] for r in results), 2),
        'known_findings_reproduced': sorted({f"{k['pattern']} @ {k['region']}" for r in results for k in r['known']}),
        'inconclusive': [e for r in results for e in r['inconclusive']][:40],
        'functions_encoded': core.describe_funcs(funcs),
        'bounds': sorted({r['bounds'] for r in results if r['bounds']}),
        'stubs': sorted({s for r in results for s in r['stubs']}),
        'per_group': [{'id': r['oid'], 'paths': r['paths'], 'claims': r['claims'], 'unsat': r['unsat'], 'sat': r['sat'],
                       'unknown': r['unknown'], 'wall_s': round(r['wall_s'], 2)} for r in results][:400],
        'explanation': 'states = feasible symbolic paths of the real functions explored; transitions = branch decisions '
                       'taken by the explorer; obligations = claims decided by z3 (negation unsat => discharged for '
                       'every real value on that path); traces_validated = float re-runs of the real code on solver models '
                       '(reachability witness + encoding validation + counterexample replays).',
    }
    level = getattr(mod, 'LEVEL', 'model_checking')
    cov['evaluations'] = max(1, sum(r['claims'] for r in results))
    cov['distinct_nontrivial'] = max(2, sum(r.get('cases', 0) for r in results))
    cov['rule'] = getattr(mod, 'RULE', 'evaluations = claims decided; a case = one (explored path, claim group) pair: all claims sharing the id '
                          'up to the last "/" on one path (e.g. one configuration, one fault schedule); cases are distinct by construction '
                          '(different path condition or different group id) and non-trivial when they reach at least one claim')
    ev = {
        'property_id': prop, 'tier': tier, 'seed': seed, 'level': level, 'coverage': cov,
        'assumptions': getattr(mod, 'ASSUMPTIONS', []), 'wall_s': round(wall, 2), 'violations': nviol,
    }
    d = os.path.join(VERIF, 'evidence')
    os.makedirs(d, exist_ok=True)
    with open(os.path.join(d, f'{prop}.json'), 'w') as f:
        json.dump(ev, f, indent=1, default=str)


def replay(mod, prop, path):
    with open(path) as f:
        d = json.load(f)
    tier = d.get('tier', 'quick')
    obs = {o.oid: o for o in mod.obligations(tier)}
    ob = obs.get(d['obligation'])
    if ob is None:
        print(f"obligation {d['obligation']} not found")
        return 2
    env = core.env_from_json(d['env'])
    h, exc = core.run_concrete(ob, env, 'replay')
    bad = [c for c in h.claims if c.cid == d['claim'] and not c.holds]
    for c in h.claims:
        print(('FAIL ' if not c.holds else 'ok   ') + c.cid + ('  ' + str(c.info) if c.info else ''))
    if bad:
        print(f'VIOLATION property={prop} replay={path}')
        return 1
    print('replay did not reproduce the violation')
    return 0


if __name__ == '__main__':
    sys.exit(main())
