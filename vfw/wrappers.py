"""Isotherm-level characterisation entry points run with their numeric kernel replaced by an argument recorder.

Shared by C04 (purity: the isotherm passed in is unchanged) and C15 (unit independence: the kernel receives equal
arguments whatever representation the isotherm is stored in)."""
import functools

import numpy

from . import stubs, symx, isofix

ADS_PROPS = dict(cross_sectional_area=0.162, molecular_diameter=0.3, polarizability=1.76e-3,
                 magnetic_susceptibility=3.6e-8, surface_density=6.71e18)


class Rec:
    def __init__(self, ret):
        self.ret = ret
        self.calls = []

    def __call__(self, *a, **k):
        self.calls.append((a, k))
        return self.ret(*a, **k) if callable(self.ret) else self.ret


def _n(x):
    return len(numpy.asarray(x, dtype=object).ravel())


def entries():
    """name -> (runner(iso, extra) -> result, [(module, attr, recorder)])"""
    import pygaps.characterisation.area_bet as ab
    import pygaps.characterisation.area_lang as al
    import pygaps.characterisation.t_plots as tp
    import pygaps.characterisation.alphas_plots as ap
    import pygaps.characterisation.dr_da_plots as dd
    import pygaps.characterisation.psd_meso as pm
    import pygaps.characterisation.psd_micro as pmi
    import pygaps.characterisation.psd_kernel as pk
    import pygaps.characterisation.isosteric_enth as ie
    import pygaps.characterisation.initial_enth as ini

    def meso_ret(v, p, *a, **k):
        n = _n(p)
        z = numpy.zeros(n - 1)
        return {'pore_widths': numpy.arange(1, n), 'pore_areas': z, 'pore_volumes': z, 'pore_distribution': z}

    E = {}
    E['area_BET'] = (lambda iso, x: ab.area_BET(iso, branch=x.get('branch', 'ads')),
                     [(ab, 'area_BET_raw', Rec((1.0, 2.0, 3.0, 0.1, 1.0, 1.0, 0, 2, 1.0)))])
    E['area_langmuir'] = (lambda iso, x: al.area_langmuir(iso, branch=x.get('branch', 'ads')),
                          [(al, 'area_langmuir_raw', Rec((1.0, 2.0, 3.0, 1.0, 1.0, 0, 2, 1.0)))])
    E['t_plot'] = (lambda iso, x: tp.t_plot(iso, thickness_model='zero thickness', branch=x.get('branch', 'ads'), t_limits=(0.1, 1.0)),
                   [(tp, 't_plot_raw', Rec(([], numpy.zeros(3))))])
    # (reference_area is given as 'BET' with area_BET stubbed: a float reference area makes alpha_s call float.lower())
    E['alpha_s'] = (lambda iso, x: ap.alpha_s(iso, x['reference'], reference_area='BET', branch=x.get('branch', 'ads'), t_limits=(0.1, 1.0)),
                    [(ap, 'alpha_s_raw', Rec(([], numpy.zeros(3)))), (ap, 'area_BET', Rec({'area': 100.0}))])
    E['da_plot'] = (lambda iso, x: dd.da_plot(iso, exp=2, branch=x.get('branch', 'ads')),
                    [(dd, 'da_plot_raw', Rec((1.0, 2.0, 2, 1.0, 1.0, 0, 2, 1.0)))])
    E['dr_plot'] = (lambda iso, x: dd.dr_plot(iso, branch=x.get('branch', 'ads')),
                    [(dd, 'da_plot_raw', Rec((1.0, 2.0, 2, 1.0, 1.0, 0, 2, 1.0)))])
    for meth, fn in (('pygaps-DH', 'psd_pygapsdh'), ('BJH', 'psd_bjh'), ('DH', 'psd_dollimore_heal')):
        E[f'psd_mesoporous[{meth}]'] = (
            (lambda m: lambda iso, x: pm.psd_mesoporous(iso, psd_model=m, pore_geometry='cylinder', branch=x.get('branch', 'ads'),
                                                        thickness_model='zero thickness', p_limits=(None, None)))(meth),
            [(pm, fn, Rec(meso_ret))])
    micro_ret = {'pore_widths': numpy.ones(2), 'pore_distribution': numpy.ones(2), 'pore_volume_cumulative': numpy.ones(2)}
    for model in ('HK', 'HK-CY', 'RY', 'RY-CY'):
        fn = 'psd_horvath_kawazoe' if model.startswith('HK') else 'psd_horvath_kawazoe_ry'
        E[f'psd_microporous[{model}]'] = (
            (lambda m: lambda iso, x: pmi.psd_microporous(iso, psd_model=m, pore_geometry='slit', branch=x.get('branch', 'ads'),
                                                          material_model='Carbon(HK)', p_limits=(None, None)))(model),
            [(pmi, fn, Rec(dict(micro_ret)))])
    E['psd_dft'] = (lambda iso, x: pk.psd_dft(iso, branch=x.get('branch', 'ads'), p_limits=(None, None)),
                    [(pk, 'psd_dft_kernel_fit', Rec((numpy.ones(2), numpy.ones(2), numpy.ones(2), numpy.ones(3))))])
    E['initial_enthalpy_point'] = (lambda iso, x: ini.initial_enthalpy_point(iso, 'enthalpy', branch=x.get('branch', 'ads')), [])
    return E


def run(name, iso, extra=None):
    """returns (result or exception, list of kernel calls [(args, kwargs)])"""
    fn, patches = entries()[name]
    for _, _, r in patches:
        r.calls = []
    with stubs.patched(*patches):
        try:
            res = fn(iso, extra or {})
        except Exception as e:      # noqa: BLE001
            res = e
    calls = [c for _, _, r in patches for c in r.calls]
    return res, calls


def flatten(x, out=None):
    """kernel arguments -> flat list of comparable leaves (numbers / proxies / strings / callables by name)"""
    out = [] if out is None else out
    if isinstance(x, dict):
        for k in sorted(x):
            out.append(('key', k))
            flatten(x[k], out)
    elif isinstance(x, (list, tuple)):
        out.append(('len', len(x)))
        for v in x:
            flatten(v, out)
    elif isinstance(x, numpy.ndarray):
        if x.ndim == 0:
            return flatten(x.item(), out)       # 0-d array and scalar are the same argument
        out.append(('shape', x.shape))
        for v in x.ravel():
            flatten(v, out)
    elif hasattr(x, 'values') and hasattr(x, 'index'):
        flatten(numpy.asarray(x.values, dtype=object), out)
    elif hasattr(x, 'pressure_mode') and hasattr(x, 'material'):
        out.append(('isotherm', type(x).__name__))
    elif isinstance(x, functools.partial):
        # a model closure (e.g. the Kelvin model with the condensate properties bound): its bound arguments are arguments too
        out.append(('partial', getattr(x.func, '__name__', type(x.func).__name__)))
        flatten(list(x.args), out)
        flatten(dict(x.keywords), out)
    elif callable(x) and not symx.is_sym(x):
        out.append(('callable', getattr(x, '__name__', getattr(getattr(x, 'func', None), '__name__', type(x).__name__))))
    else:
        out.append(('val', x))
    return out
