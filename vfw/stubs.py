"""Environment stubs with stated contracts (every stub is part of the claim)."""
import contextlib
import types

import numpy
import z3

from . import symx
from .symx import SymReal


@contextlib.contextmanager
def patched(*triples):
    """patched((obj, 'attr', value), ...) - restore on exit"""
    saved = []
    try:
        for obj, attr, val in triples:
            saved.append((obj, attr, getattr(obj, attr)))
            setattr(obj, attr, val)
        yield
    finally:
        for obj, attr, val in reversed(saved):
            setattr(obj, attr, val)


class OptRes(dict):
    """scipy OptimizeResult stand-in: the fields a stub fills in are its contract; asking for any other field of the real
    result object is recorded as a stub gap (harness error), never answered with None"""

    def __getattr__(self, name):
        if name in self:
            return self[name]
        if name.startswith('__'):
            raise AttributeError(name)
        symx.STUB_GAPS.append(f'OptimizeResult.{name}')
        raise AttributeError(f'the optimiser stub does not model OptimizeResult.{name}')


def _sym_like(h, name, x0):
    """array (or scalar) of fresh reals with the shape of x0"""
    a = numpy.asarray(x0, dtype=object)
    if a.ndim == 0:
        return (h.real(name) if h.sym else numpy.float64(h.real(name))), ()
    out = numpy.empty(a.shape, dtype=object if h.sym else float)
    for i, idx in enumerate(numpy.ndindex(a.shape)):
        out[idx] = h.real(f'{name}_{i}')
    return out, a.shape


class RootStub:
    """scipy.optimize.root contract: on success returns x with fun(x) == 0 (componentwise),
    x inside `domain`; may instead report failure (forked)."""

    def __init__(self, h, name='root', domain=None, may_fail=True):
        self.h = h
        self.name = name
        self.domain = domain
        self.may_fail = may_fail
        self.calls = []

    def __call__(self, fun, x0, args=(), method=None, **kw):
        h = self.h
        n = len(self.calls)
        tag = f'{self.name}{n}'
        self.calls.append(types.SimpleNamespace(fun=fun, x0=x0, method=method, kw=kw, args=args))
        if self.may_fail and not h.flag(f'{tag}_success'):
            return OptRes(success=False, x=x0, message='stub: solver reports failure', fun=None)
        x, shape = _sym_like(h, f'{tag}_x', x0)
        if self.domain is not None:
            for v in (numpy.asarray(x, dtype=object).ravel() if shape else [x]):
                c = self.domain(v)
                if c is not None:
                    h.assume(c)
        r = fun(x, *args)
        for v in (numpy.asarray(r, dtype=object).ravel()):
            h.assume(h.eq(v, 0.0) if h.sym else True)
        self.calls[-1].x = x
        return OptRes(success=True, x=x, fun=r, message='stub')


class MinimizeZeroStub(RootStub):
    """scipy.optimize.minimize on a squared residual: success returns x with objective == 0."""

    def __call__(self, fun, x0, args=(), method=None, **kw):
        return super().__call__(fun, x0, args=args, method=method, **kw)


class QuadRecorder:
    """scipy.integrate.quad recorder: returns (fresh symbol, 0) and records integrand/limits."""

    def __init__(self, h, name='quad', concrete=None):
        self.h = h
        self.name = name
        self.calls = []
        self.concrete = concrete      # return this float (+ call number) instead of a fresh symbol

    def __call__(self, f, a, b, *args, **kw):
        n = len(self.calls)
        self.calls.append(types.SimpleNamespace(f=f, a=a, b=b))
        if self.concrete is not None:
            return (self.concrete + n, 0.0)
        return (self.h.real(f'{self.name}{n}_value'), 0.0)


# --------------------------------------------------------------------------
class FakeState:
    """CoolProp AbstractState stand-in.  Values are uninterpreted functions of the arguments of the
    *last* update(QT_INPUTS, q, T); rhomass = rhomolar * molar_mass; may raise if `fail` says so."""

    def __init__(self, h, tag='f', fail=None):
        self.h = h
        self.tag = tag
        self.last = None
        self.fail = fail or (lambda what: False)
        self.updates = 0

    def __getattr__(self, name):
        # (only reached for attributes the stub does not define) - the run is then a harness error, not a finding
        if name.startswith('__'):
            raise AttributeError(name)
        self.h.stub_gaps.append(f'FakeState.{name}')
        raise AttributeError(f'FakeState does not model AbstractState.{name}')

    # identification methods of CoolProp's AbstractState: the backend name does NOT identify the fluid
    def backend_name(self):
        return 'HelmholtzEOSBackend'

    def name(self):
        return f'fake-{self.tag}'

    def fluid_names(self):
        return [f'fake-{self.tag}']

    def update(self, pair, a, b):
        from pygaps.utilities.coolprop_utilities import CP
        if self.fail('update'):
            raise symx.simulated(ValueError('stub backend failure in update'))
        if pair == CP.QT_INPUTS:
            self.kind = 'QT'
        elif pair == CP.PQ_INPUTS:
            self.kind = 'PQ'
        else:
            raise symx.Unsupported('FakeState models QT_INPUTS and PQ_INPUTS only')
        self.last = (a, b)
        self.updates += 1

    def _get(self, what, prop, use_q=True):
        if self.fail(what):
            raise symx.simulated(ValueError(f'stub backend failure in {what}'))
        if self.last is None:
            # arbitrary stale state: an unconstrained "previous update"
            x, y = self.h.real(f'stale_q_{self.tag}'), self.h.real(f'stale_T_{self.tag}')
            kind = 'QT'
        else:
            x, y = self.last
            kind = getattr(self, 'kind', 'QT')
        if kind == 'QT':
            q, T = x, y
            return self.h.fun(f'{prop}_{self.tag}', q, T) if use_q else self.h.fun(f'{prop}_{self.tag}', T)
        p, q = x, y
        if prop == 'psat':
            return p
        return self.h.fun(f'{prop}_pq_{self.tag}', q, p)

    def p(self):
        return self._get('p', 'psat', use_q=False)

    def rhomolar(self):
        return self._get('rhomolar', 'rhomolar')

    def rhomass(self):
        return self._get('rhomass', 'rhomolar') * self.molar_mass()

    def hmolar(self):
        return self._get('hmolar', 'hmolar')

    def surface_tension(self):
        return self._get('surface_tension', 'sigma', use_q=False)

    def molar_mass(self):
        if self.fail('molar_mass'):
            raise symx.simulated(ValueError('stub backend failure in molar_mass'))
        return self.h.real(f'Mkg_{self.tag}', pos=True) if self.h.sym else self.h.real(f'Mkg_{self.tag}')

    def p_critical(self):
        return self.h.real(f'pc_{self.tag}', pos=True)

    def T_critical(self):
        return self.h.real(f'Tc_{self.tag}', pos=True)

    def Ttriple(self):
        return self.h.real(f'Tt_{self.tag}', pos=True)

    def positivity(self, T):
        """assumptions: all thermodynamic values at T positive"""
        h = self.h
        for q in (0.0, 1.0):
            h.assume(h.fun(f'rhomolar_{self.tag}', q, T) > 0)
        h.assume(h.fun(f'psat_{self.tag}', T) > 0)
        h.assume(h.fun(f'sigma_{self.tag}', T) > 0)


def fake_adsorbate(h, name='fakegas', tag='f', fail=None, **props):
    from pygaps.core.adsorbate import Adsorbate
    from pygaps.utilities.coolprop_utilities import thermodynamic_backend
    a = Adsorbate(name, backend_name='FAKE', **props)
    a._backend_mode = thermodynamic_backend()
    a._state = FakeState(h, tag, fail)
    return a


class OtherStr(str):
    """Representative of 'any string that is not in the tables'.  Operations other than equality,
    hashing, truthiness, formatting and lower() are logged (so the abstraction 'unknown strings are
    only distinguished by equality' is monitored)."""
    inspected = []

    def lower(self):
        return OtherStr(str.lower(self))

    def __contains__(self, item):
        OtherStr.inspected.append(('contains', item))
        return str.__contains__(self, item)

    def startswith(self, *a):
        OtherStr.inspected.append(('startswith', a))
        return str.startswith(self, *a)

    def split(self, *a):
        OtherStr.inspected.append(('split', a))
        return str.split(self, *a)


OTHER = OtherStr('zz-unknown-label')


@contextlib.contextmanager
def exact_unit_tables(h):
    """In symbolic mode the values of the running code's unit tables are replaced *in place* by the exact rationals
    of their decimal spelling (133.322 -> 66661/500), so that factors the library computes from two table entries
    before touching a value (unit_list[a] / unit_list[b]) are exact instead of being rounded to a double.  The
    tables themselves are read from the working tree at run time; nothing is cached."""
    import fractions
    from pygaps.units import converter_unit as cu
    tabs = [cu._MOLAR_UNITS, cu._MASS_UNITS, cu._VOLUME_UNITS, cu._PRESSURE_UNITS]
    if h is None or not h.sym:
        yield
        return
    saved = [dict(t) for t in tabs]
    try:
        for t in tabs:
            for k, v in list(t.items()):
                if isinstance(v, (int, float)) and not isinstance(v, bool):
                    t[k] = fractions.Fraction(repr(v)) if isinstance(v, float) else fractions.Fraction(v)
        yield
    finally:
        for t, s in zip(tabs, saved):
            t.clear()
            t.update(s)
