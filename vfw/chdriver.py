"""E2: CrossHair driver.  One obligation = one contract function in a file under /verif/ch.

Verdicts: 'Confirmed over all paths' -> discharged; a counterexample -> replayed by calling the contract function
concretely and evaluating its `CHECKS[name]` predicate -> VIOLATION if it reproduces; 'Not confirmed' / 'Unable to
meet precondition' -> inconclusive within the budget (reported, never counted as discharged)."""
import ast
import importlib.util
import os
import re
import subprocess
import sys
import time

from . import core

VERIF = core.VERIF


def _empty(oid):
    return {'oid': oid, 'paths': 0, 'claims': 0, 'trivial': 0, 'unsat': 0, 'sat': 0, 'unknown': 0, 'violations': [], 'known': [],
            'unconfirmed': [], 'harness_errors': [], 'inconclusive': [], 'validated': 0, 'replays': 0, 'samples': [], 'solver_s': 0.0,
            'wall_s': 0.0, 'decisions': 0, 'feas_queries': 0, 'feas_unknown': 0, 'reach': 0, 'bounds': '', 'stubs': [], 'funcs': [],
            'exc_paths': 0, 'notes': [], 'cases': 1}


def load_module(path):
    spec = importlib.util.spec_from_file_location('ch_' + os.path.basename(path)[:-3], path)
    mod = importlib.util.module_from_spec(spec)
    spec.loader.exec_module(mod)
    return mod


def func_line(path, name):
    tree = ast.parse(open(path).read())
    for n in ast.walk(tree):
        if isinstance(n, ast.FunctionDef) and n.name == name:
            return n.lineno + 1
    raise KeyError(name)


def run(ob, findings, prop, tier):
    path, fname, budget = ob.args
    res = _empty(ob.oid)
    res['bounds'] = ob.bounds
    res['funcs'] = ob.funcs
    res['stubs'] = ob.stubs
    t0 = time.time()
    line = func_line(path, fname)
    env = dict(os.environ)
    env['PYTHONPATH'] = f'/repo/src:{VERIF}'
    cmd = [sys.executable, '-m', 'crosshair', 'check', '--report_all', '--per_condition_timeout', str(budget),
           '--per_path_timeout', str(max(5, budget // 6)), f'{path}:{line}']
    try:
        out = subprocess.run(cmd, capture_output=True, text=True, timeout=budget * 3 + 60, env=env, cwd=VERIF)
        text = out.stdout + out.stderr
    except subprocess.TimeoutExpired:
        text = 'TIMEOUT'
    res['wall_s'] = time.time() - t0
    res['solver_s'] = res['wall_s']
    res['claims'] = 1
    res['paths'] = 1
    res['decisions'] = 1
    cid = f'{ob.oid}'
    res['samples'].append({'claim': cid, 'crosshair': text.strip()[-300:]})
    mod = load_module(path)
    listed = [f for f in findings if f['property'] == prop and re.fullmatch(f['claim'].replace('*', '.*'), cid)]
    if 'Confirmed over all paths' in text:
        res['unsat'] = 1
        res['reach'] = 1
        # reachability twin: the precondition is satisfiable (CrossHair would say 'Unable to meet precondition' otherwise)
        res['validated'] = 1
        return res
    m = re.search(r'error: (.*?) when calling (\w+\(.*\))(?: \(which (?:returns|raises) (.*)\))?\s*$', text, re.M)
    if m:
        res['sat'] = 1
        call = m.group(2)
        # replay on the real code: evaluate the call, then the contract's own predicate
        ns = dict(vars(mod))
        captured = {}

        def cap(*a, **k):
            captured['a'], captured['k'] = a, k
        ns[fname] = cap
        try:
            eval(call, ns)
            a, k = captured['a'], captured['k']
            try:
                r = getattr(mod, fname)(*a, **k)
                ok = mod.CHECKS[fname](r, *a, **k)
                allowed = False
            except Exception as e:      # noqa: BLE001
                r = e
                allowed = isinstance(e, tuple(mod.RAISES.get(fname, ())))
                ok = allowed
            res['replays'] = 1
            region = mod.REGIONS.get(fname, lambda *a, **k: None)(*a, **k) if hasattr(mod, 'REGIONS') else None
            detail = {'claim': cid, 'obligation': ob.oid, 'env': {'call': call}, 'info': f'{call} -> {r!r}', 'concrete_claims': [], 'log': []}
            if not ok:
                hit = [f for f in listed if f['region'] == region]
                if hit:
                    res['known'].append({'claim': cid, 'pattern': hit[0]['claim'], 'region': region, 'what': hit[0]['what']})
                    res['notes'].append('counterexample inside a listed region; values outside the region were not separately '
                                        'confirmed by CrossHair in this run')
                    res['unknown'] = 1
                    res['inconclusive'].append(f'{cid}: counterexample lies in known region {region}; rest of the domain not confirmed')
                else:
                    res['violations'].append(detail)
            else:
                res['unconfirmed'].append(detail)
        except Exception as e:      # noqa: BLE001
            res['harness_errors'].append(f'{ob.oid}: could not replay CrossHair counterexample {call}: {e!r}')
        return res
    res['unknown'] = 1
    why = 'not confirmed within the budget' if 'Not confirmed' in text else ('unable to meet precondition within the budget'
                                                                              if 'Unable to meet' in text else text.strip()[-200:])
    res['inconclusive'].append(f'{cid}: CrossHair: {why}')
    return res
