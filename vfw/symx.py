"""E1: operator-overloading symbolic executor on z3.

The real pyGAPS functions are *called* with SymReal / SymInt / SymBool proxy
values.  Every arithmetic operation builds a z3 term; every time Python asks a
comparison for its truth value the explorer asks z3 which outcomes are feasible
under the current path condition and forks (replay-based DFS: the harness is
re-run from the start with a recorded decision prefix).

Semantics: exact reals (float constants are taken at their shortest decimal
representation).  Division forks on a zero denominator and then follows numpy
float semantics (nan / +-inf as concrete floats).  sqrt and rational powers are
encoded exactly with a fresh variable; exp/log are introduced as fresh
variables tied by ground monotonicity/injectivity axioms over the pairs that
occur (+ optional product/quotient closure at decision time).
"""
import fractions
import itertools
import math
import numbers
import operator
import time

import numpy
import z3


class Unsupported(BaseException):
    """The proxy was used in a way the engine does not model (harness error)."""


STUB_GAPS = []      # API of a real dependency that the code under test asked a contract stub for and the stub does not model


def simulated(exc):
    """mark an exception that a contract stub raises ON PURPOSE (it stands for a documented failure of the real
    dependency); any other exception that originates in /verif code is a harness fault, not a finding"""
    exc._vfw_simulated = True
    return exc


def raised_by_harness(exc):
    """True if the exception was raised (not merely passed through) by code under /verif and is not a simulated failure"""
    if getattr(exc, '_vfw_simulated', False):
        return False
    tb = exc.__traceback__
    last = None
    while tb is not None:
        last = tb
        tb = tb.tb_next
    if last is None:
        return False
    fn = last.tb_frame.f_code.co_filename
    return fn.startswith('/verif/') and '/site-packages/' not in fn


class Abort(BaseException):
    """Path is infeasible (both outcomes unsat)."""


class Budget(BaseException):
    """Exploration budget exhausted -> obligation inconclusive."""


FEAS_TIMEOUT_MS = 2000


def guarded_check(solver, timeout_ms):
    """solver.check(); exceptions count as unknown (a watchdog that interrupts the context from a timer thread was tried
    and made later checks of the same context return unknown - removed)"""
    try:
        r = str(solver.check())
    except z3.Z3Exception:
        r = 'unknown'
    return r


class State:
    """State of one symbolic run (one path)."""

    def __init__(self, prefix, base, stats, deadline=None, max_decisions=4000):
        self.prefix = prefix
        self.trace = []
        self.pc = []              # decisions + assumptions, in order
        self.defs = []            # definitional constraints of fresh variables
        self.pairs = [(z3.RealVal(0), z3.RealVal(1))]   # (y, x) with x = exp(y)
        self.implicit = {}        # fresh var id -> how it is defined (differentiator)
        self.memo = {}            # (kind, term id, ...) -> (term kept alive, fresh var)
        self.counter = 0
        self.solver = z3.Solver()
        self.solver.set('timeout', FEAS_TIMEOUT_MS)
        self.model = None
        self.model_valid = False
        self.pending = list(base)
        self.todo = None
        self.stats = stats
        self.deadline = deadline
        self.max_decisions = max_decisions
        self.notes = []
        for b in base:
            self.pc.append(b)

    # -- solver plumbing --------------------------------------------------
    def _flush(self):
        if self.pending:
            self.solver.add(*self.pending)
            self.pending = []

    def add(self, c):
        self.pc.append(c)
        self.pending.append(c)
        if self.model_valid and self.model_says(c) is not True:
            self.model_valid = False

    def define(self, *cs):
        for c in cs:
            self.defs.append(c)
            self.pending.append(c)
        self.model_valid = False     # fresh variables are not in the cached model

    def check(self, c, want_model=False):
        """feasibility of (pc and defs and c) with a fresh (non-incremental) solver: z3 then uses its nlsat-based
        strategy for nonlinear real arithmetic, which the incremental core does not"""
        t0 = time.time()
        # 1. incremental solver with a short budget (cheap for the many linear queries)
        self._flush()
        self.solver.set('timeout', 150)
        self.solver.push()
        self.solver.add(c)
        r = guarded_check(self.solver, 150)
        s = self.solver
        if r == 'sat':
            try:
                self.model = s.model()
            except z3.Z3Exception:
                self.model = None
        self.solver.pop()
        if r == 'unknown':
            # 2. fresh solver: nlsat-based strategy
            s = z3.Solver()
            s.set('timeout', FEAS_TIMEOUT_MS)
            s.add(*self.pc)
            s.add(*self.defs)
            s.add(c)
            r = guarded_check(s, FEAS_TIMEOUT_MS)
            if r == 'sat':
                try:
                    self.model = s.model()
                except z3.Z3Exception:
                    self.model = None
        self.stats['feas_queries'] += 1
        self.stats['solver_s'] += time.time() - t0
        if r == 'unknown':
            self.stats['feas_unknown'] += 1
        return r

    def model_says(self, c):
        """truth value of c in the cached model of the current path condition (None if unavailable)"""
        m = getattr(self, 'model', None)
        if m is None:
            return None
        try:
            v = m.eval(c, model_completion=True)
        except z3.Z3Exception:
            return None
        if z3.is_true(v):
            return True
        if z3.is_false(v):
            return False
        return None

    def fresh(self, name, sort='real'):
        self.counter += 1
        n = f'{name}!{self.counter}'
        return z3.Real(n) if sort == 'real' else z3.Int(n)

    # -- forking ----------------------------------------------------------
    def branch(self, cond):
        c = z3.simplify(cond)
        if z3.is_true(c):
            return True
        if z3.is_false(c):
            return False
        i = len(self.trace)
        if i < len(self.prefix):
            d = self.prefix[i]
        else:
            if self.deadline is not None and time.time() > self.deadline:
                raise Budget('wall budget')
            if i > self.max_decisions:
                raise Budget('too many decisions on one path')
            cached = self.model if self.model_valid else None
            known = self.model_says(c) if cached is not None else None
            if known is True:
                rt, mt = 'sat', cached
                rf = self.check(z3.Not(c))
                mf = self.model if rf == 'sat' else None
            elif known is False:
                rf, mf = 'sat', cached
                rt = self.check(c)
                mt = self.model if rt == 'sat' else None
            else:
                rt = self.check(c)
                mt = self.model if rt == 'sat' else None
                rf = self.check(z3.Not(c))
                mf = self.model if rf == 'sat' else None
            t_ok = rt != 'unsat'
            f_ok = rf != 'unsat'
            if t_ok and f_ok:
                self.todo.append(self.trace + [False])
                d = True
            elif t_ok:
                d = True
            elif f_ok:
                d = False
            else:
                raise Abort('infeasible path')
            self.model = mt if d else mf
            self.model_valid = self.model is not None
        self.trace.append(d)
        keep = (self.model, self.model_valid)
        self.add(c if d else z3.Not(c))
        if i >= len(self.prefix):
            self.model, self.model_valid = keep
        return d

    # -- exp / log pairs --------------------------------------------------
    def add_pair(self, y, x):
        self.define(x > 0)
        for (y2, x2) in self.pairs:
            self.define((y < y2) == (x < x2), (y == y2) == (x == x2))
        self.pairs.append((y, x))

    def closure_axioms(self):
        """One round of product/quotient closure of the (y, exp y) pairs."""
        ax = []
        bp = self.pairs[1:]
        derived = []
        for (y1, x1), (y2, x2) in itertools.combinations_with_replacement(bp, 2):
            derived.append((y1 + y2, x1 * x2))
        for (y1, x1), (y2, x2) in itertools.permutations(bp, 2):
            derived.append((y1 - y2, x1 / x2))
        for (y1, x1) in derived:
            for (y2, x2) in self.pairs:
                ax.append((y1 < y2) == (x1 < x2))
                ax.append((y1 == y2) == (x1 == x2))
        return ax

    def tangent_axioms(self):
        """exp is convex: e^y1 >= e^y2 (1 + y1 - y2) for all pairs."""
        ax = []
        for (y1, x1), (y2, x2) in itertools.permutations(self.pairs, 2):
            ax.append(x1 >= x2 * (1 + y1 - y2))
        return ax


CUR = None   # current State (None = no symbolic run active)


def cur():
    if CUR is None:
        raise Unsupported('symbolic value used outside an exploration')
    return CUR


# --------------------------------------------------------------------------
# conversions

def _simplest_between(lo, hi):
    """simplest fraction (smallest denominator) in the closed interval [lo, hi], 0 < lo <= hi (Stern-Brocot)"""
    F = fractions.Fraction
    if lo.denominator == 1:
        return lo
    fl = lo.numerator // lo.denominator
    if F(fl + 1) <= hi:
        return F(fl + 1)
    if fl + 1 > hi and F(fl) == lo:
        return lo
    # same integer part: recurse on the reciprocal of the fractional parts
    rlo, rhi = lo - fl, hi - fl
    if rlo == 0:
        return F(fl)
    inner = _simplest_between(1 / rhi, 1 / rlo)
    return fl + 1 / inner


_FLOAT_CACHE = {}


def _frac_of_float(x):
    """floats are read as the simplest rational within 2 ulp when its denominator is <= 10**6 (1e6/101325 ->
    40000/4053, 1000/133.322 -> 500000/66661, 0.1 -> 1/10), else at their shortest decimal representation; unit factors computed in floats before
    a symbolic value is touched thus stay exact rationals"""
    x = float(x)
    if x in _FLOAT_CACHE:
        return _FLOAT_CACHE[x]
    F = fractions.Fraction
    dec = F(repr(x))
    r = dec
    if x != 0 and math.isfinite(x):
        ax = abs(x)
        exact = F(ax)
        ulp = F(math.ulp(ax))
        cand = _simplest_between(exact - 2 * ulp, exact + 2 * ulp)
        if cand.denominator <= 10 ** 6 and cand.denominator <= dec.denominator:
            r = cand if x > 0 else -cand
    _FLOAT_CACHE[x] = r
    return r


def realval(x):
    """Exact z3 numeral of a python number (floats at their decimal repr)."""
    if isinstance(x, bool):
        return z3.RealVal(int(x))
    if isinstance(x, int):
        return z3.RealVal(x)
    if isinstance(x, fractions.Fraction):
        return z3.RealVal(str(x))
    if isinstance(x, float):
        if math.isinf(x) or math.isnan(x):
            raise TypeError('nonfinite')
        f = _frac_of_float(x)
        return z3.RealVal(str(f))
    raise TypeError(type(x))


def _nonfinite(o):
    """Return the float if o is a concrete nan/inf, else None."""
    if isinstance(o, float) or isinstance(o, numpy.floating):
        f = float(o)
        if math.isnan(f) or math.isinf(f):
            return f
    return None


def toz(x):
    if isinstance(x, SymReal):
        return x.t
    if isinstance(x, SymInt):
        return z3.ToReal(x.t)
    if isinstance(x, z3.ArithRef):
        return z3.ToReal(x) if x.is_int() else x
    if isinstance(x, (bool, numpy.bool_)):
        return z3.RealVal(int(x))
    if isinstance(x, (int, float, fractions.Fraction)):
        return realval(x)
    if isinstance(x, numpy.generic):
        return toz(x.item())
    if isinstance(x, numpy.ndarray) and x.ndim == 0:
        return toz(x.item())
    if isinstance(x, SymBool):
        return z3.If(x.c, z3.RealVal(1), z3.RealVal(0))
    raise TypeError(type(x))


def is_sym(x):
    return isinstance(x, (SymReal, SymInt, SymBool))


# --------------------------------------------------------------------------
class SymBool:
    __array_priority__ = 1000

    def __init__(self, c):
        self.c = c

    def __bool__(self):
        return cur().branch(self.c)

    @staticmethod
    def _c(o):
        if isinstance(o, SymBool):
            return o.c
        if isinstance(o, (bool, numpy.bool_)):
            return z3.BoolVal(bool(o))
        raise TypeError(type(o))

    def __and__(self, o):
        try:
            return SymBool(z3.And(self.c, SymBool._c(o)))
        except TypeError:
            return NotImplemented
    __rand__ = __and__

    def __or__(self, o):
        try:
            return SymBool(z3.Or(self.c, SymBool._c(o)))
        except TypeError:
            return NotImplemented
    __ror__ = __or__

    def __xor__(self, o):
        try:
            return SymBool(z3.Xor(self.c, SymBool._c(o)))
        except TypeError:
            return NotImplemented
    __rxor__ = __xor__

    def __invert__(self):
        return SymBool(z3.Not(self.c))

    def __eq__(self, o):
        try:
            return SymBool(self.c == SymBool._c(o))
        except TypeError:
            return False

    def __ne__(self, o):
        try:
            return SymBool(self.c != SymBool._c(o))
        except TypeError:
            return True

    def __hash__(self):
        return id(self)

    # ordering of booleans (False < True): numpy.argmax / sort on object arrays of comparisons
    def __gt__(self, o):
        try:
            return SymBool(z3.And(self.c, z3.Not(SymBool._c(o))))
        except TypeError:
            return NotImplemented

    def __lt__(self, o):
        try:
            return SymBool(z3.And(z3.Not(self.c), SymBool._c(o)))
        except TypeError:
            return NotImplemented

    def __ge__(self, o):
        try:
            return SymBool(z3.Or(self.c, z3.Not(SymBool._c(o))))
        except TypeError:
            return NotImplemented

    def __le__(self, o):
        try:
            return SymBool(z3.Or(z3.Not(self.c), SymBool._c(o)))
        except TypeError:
            return NotImplemented

    def __int__(self):
        return int(bool(self))

    def __index__(self):
        return int(bool(self))

    def __add__(self, o):
        return int(bool(self)) + (int(bool(o)) if isinstance(o, SymBool) else o)
    __radd__ = __add__

    def __repr__(self):
        return f'SymBool({self.c})'


def sym_and(*xs):
    return SymBool(z3.And(*[SymBool._c(x) for x in xs]))


def sym_or(*xs):
    return SymBool(z3.Or(*[SymBool._c(x) for x in xs]))


def sym_not(x):
    return SymBool(z3.Not(SymBool._c(x)))


def implies(a, b):
    return SymBool(z3.Implies(SymBool._c(a), SymBool._c(b)))


# --------------------------------------------------------------------------
def _is_arr(o):
    return isinstance(o, numpy.ndarray) and o.ndim > 0


def _pow_int(t, n):
    r = t
    for _ in range(abs(n) - 1):
        r = r * t
    return r


class SymReal:
    __array_priority__ = 1000

    def __init__(self, t):
        self.t = t

    # ---- helpers
    def _bin(self, o, f, nf, rev=False):
        if _is_arr(o) or hasattr(o, 'iloc'):
            return NotImplemented
        n = _nonfinite(o)
        if n is not None:
            return nf(self, n, rev)
        try:
            oz = toz(o)
        except TypeError:
            return NotImplemented
        return f(oz, self.t) if rev else f(self.t, oz)

    # nonfinite partner handlers (numpy float semantics)
    @staticmethod
    def _nf_add(s, n, rev):
        return n

    @staticmethod
    def _nf_sub(s, n, rev):
        if math.isnan(n):
            return n
        return n if rev else -n

    @staticmethod
    def _nf_mul(s, n, rev):
        if math.isnan(n):
            return n
        if s > 0:
            return n
        if s < 0:
            return -n
        return math.nan

    @staticmethod
    def _nf_div(s, n, rev):
        if math.isnan(n):
            return n
        if not rev:               # s / inf
            return SymReal(z3.RealVal(0))
        # inf / s
        if s > 0:
            return n
        if s < 0:
            return -n
        return n   # inf / 0 = inf (numpy), sign of zero ignored

    def __add__(s, o):
        return s._bin(o, lambda a, b: SymReal(a + b), SymReal._nf_add)

    def __radd__(s, o):
        return s._bin(o, lambda a, b: SymReal(a + b), SymReal._nf_add, True)

    def __sub__(s, o):
        return s._bin(o, lambda a, b: SymReal(a - b), SymReal._nf_sub)

    def __rsub__(s, o):
        return s._bin(o, lambda a, b: SymReal(a - b), SymReal._nf_sub, True)

    def __mul__(s, o):
        return s._bin(o, lambda a, b: SymReal(a * b), SymReal._nf_mul)

    def __rmul__(s, o):
        return s._bin(o, lambda a, b: SymReal(a * b), SymReal._nf_mul, True)

    def __neg__(s):
        return SymReal(-s.t)

    def __pos__(s):
        return s

    def __abs__(s):
        return s if (s >= 0) else -s

    @staticmethod
    def _div(a, b):
        bs = z3.simplify(b)
        if z3.is_rational_value(bs):
            if bs.numerator_as_long() != 0:
                return SymReal(a / bs)
        st = cur()
        if st.branch(b == 0):
            st.notes.append('division by zero')
            if st.branch(a == 0):
                return math.nan
            if st.branch(a > 0):
                return math.inf
            return -math.inf
        if z3.is_app(bs) and bs.decl().kind() == z3.Z3_OP_DIV:
            # a / (p / q) = a q / p  (p != 0 on this path, q != 0 since p / q was formed): keeps terms polynomial
            p_, q_ = bs.children()
            return SymReal(z3.simplify(a * q_ / p_))
        return SymReal(a / b)

    def __truediv__(s, o):
        return s._bin(o, SymReal._div, SymReal._nf_div)

    def __rtruediv__(s, o):
        return s._bin(o, SymReal._div, SymReal._nf_div, True)

    def __floordiv__(s, o):
        raise Unsupported('floordiv on symbolic real')

    def __mod__(s, o):
        raise Unsupported('mod on symbolic real')

    def __pow__(s, o):
        if isinstance(o, SymInt):
            o = o.__index__()
        if isinstance(o, (numpy.integer,)):
            o = int(o)
        if isinstance(o, (float, numpy.floating)) and float(o) == int(o):
            o = int(o)
        if isinstance(o, (int,)) and not isinstance(o, bool):
            n = o
            if n == 0:
                return SymReal(z3.RealVal(1))
            r = _pow_int(s.t, n)
            return SymReal(r) if n > 0 else SymReal._div(z3.RealVal(1), r)
        if isinstance(o, SymReal):
            os_ = z3.simplify(o.t)
            if z3.is_rational_value(os_):
                q = fractions.Fraction(os_.numerator_as_long(), os_.denominator_as_long())
                return s.ratpow(q)
            return (o * s.log()).exp()
        if isinstance(o, (float, numpy.floating)):
            return s.ratpow(_frac_of_float(o))
        if isinstance(o, fractions.Fraction):
            return s.ratpow(o)
        return NotImplemented

    def __rpow__(s, o):
        # const ** sym
        if isinstance(o, (int, float, numpy.floating, numpy.integer)):
            base = float(o)
            if base == 1:
                return SymReal(z3.RealVal(1))
            if base <= 0:
                raise Unsupported('nonpositive base to symbolic power')
            if base == math.e:
                return s.exp()
            return (s * SymReal(realval(base)).log()).exp()
        return NotImplemented

    def ratpow(s, q):
        a, b = q.numerator, q.denominator
        if b == 1:
            return s ** int(a)
        if b > 12 or abs(a) > 24:
            raise Unsupported(f'rational power {q} outside the bounded exponent set')
        if not (s >= 0):
            return math.nan
        st = cur()
        key = ('root', s.t.get_id(), abs(a), b)
        if key in st.memo:
            y = st.memo[key][1]
        else:
            y = st.fresh('root')
            st.define(y >= 0, _pow_int(y, b) == _pow_int(s.t, abs(a)))
            st.implicit[y.get_id()] = ('root', abs(a), b, s.t, y)
            st.memo[key] = (s.t, y)
        r = SymReal(y)
        return r if a > 0 else 1 / r

    def sqrt(s):
        if not (s >= 0):
            return math.nan
        st = cur()
        key = ('root', s.t.get_id(), 1, 2)
        if key in st.memo:
            return SymReal(st.memo[key][1])
        y = st.fresh('sqrt')
        st.define(y * y == s.t, y >= 0)
        st.implicit[y.get_id()] = ('root', 1, 2, s.t, y)
        st.memo[key] = (s.t, y)
        return SymReal(y)

    def log(s):
        st = cur()
        if not (s > 0):
            st.notes.append('log of nonpositive')
            if s == 0:
                return -math.inf
            return math.nan
        for (y, x) in st.pairs:
            if z3.eq(x, s.t):
                return SymReal(y)
        sx = z3.simplify(s.t)
        for (y, x) in st.pairs:
            if z3.eq(z3.simplify(x), sx):
                return SymReal(y)
        y = st.fresh('ln')
        st.add_pair(y, s.t)
        st.implicit[y.get_id()] = ('log', s.t, y)
        return SymReal(y)

    def exp(s):
        st = cur()
        for (y, x) in st.pairs:
            if z3.eq(y, s.t):
                return SymReal(x)
        sy = z3.simplify(s.t)
        for (y, x) in st.pairs:
            if z3.eq(z3.simplify(y), sy):
                return SymReal(x)
        x = st.fresh('exp')
        st.add_pair(s.t, x)
        st.implicit[x.get_id()] = ('exp', s.t, x)
        return SymReal(x)

    def log10(s):
        return s.log() / SymReal(realval(10)).log()

    def log2(s):
        return s.log() / SymReal(realval(2)).log()

    def log1p(s):
        return (s + 1).log()

    def expm1(s):
        return s.exp() - 1

    def conjugate(s):
        return s

    @property
    def real(s):
        return s

    # ---- comparisons
    def _cmp(s, o, op):
        if _is_arr(o) or hasattr(o, 'iloc'):
            return NotImplemented
        n = _nonfinite(o)
        if n is not None:
            if math.isnan(n):
                return op is operator.ne
            return op(0.0, n)
        try:
            return SymBool(op(s.t, toz(o)))
        except TypeError:
            return NotImplemented

    def __lt__(s, o):
        return s._cmp(o, operator.lt)

    def __le__(s, o):
        return s._cmp(o, operator.le)

    def __gt__(s, o):
        return s._cmp(o, operator.gt)

    def __ge__(s, o):
        return s._cmp(o, operator.ge)

    def __eq__(s, o):
        r = s._cmp(o, operator.eq)
        return False if r is NotImplemented else r

    def __ne__(s, o):
        r = s._cmp(o, operator.ne)
        return True if r is NotImplemented else r

    def __bool__(s):
        return cur().branch(s.t != 0)

    def __hash__(s):
        # structural: two proxies of the same term hash alike, so that a dict / functools.lru_cache keyed by a value (e.g. the
        # temperature) hits for the same symbolic value as it would for the same float; == then decides (trivially true)
        return hash(('SymReal', s.t.hash()))

    def __repr__(s):
        return f'SymReal({s.t})'

    def __float__(s):
        raise Unsupported('symbolic real cannot be concretised to float')

    def __int__(s):
        """int(x): truncation towards zero; concretised by forking over the feasible integer values (each fork is the purely
        real constraint n <= x < n + 1, so the path condition stays in nonlinear REAL arithmetic)"""
        st = cur()
        st.notes.append('int()')
        LIMIT = 4
        for k_ in range(LIMIT + 1):
            r = st.check(z3.BoolVal(True))
            if r != 'sat':
                raise Budget('cannot enumerate int() of a symbolic real')
            q = model_num(st.model, s.t)
            n = int(q)      # Fraction -> truncation towards zero
            if n == 0:
                c = z3.And(s.t > -1, s.t < 1)
            elif q >= 0:
                c = z3.And(s.t >= n, s.t < n + 1)
            else:
                c = z3.And(s.t > n - 1, s.t <= n)
            if k_ == LIMIT:
                # unbounded (or large) range: the first LIMIT integer values were explored as paths of their own, the rest of
                # the range is cut off HERE and reported (the obligation is then inconclusive outside those values)
                st.stats['truncated'].append(f'int() of a symbolic real: explored the values reached first ({LIMIT}), the rest of its range is not covered')
                raise Abort('int() range truncated')
            if st.branch(c):
                return n

    def __round__(s, n=None):
        """round(x, n): fresh r with |r - x| <= 0.5 * 10**-n (sound abstraction of decimal rounding)"""
        st = cur()
        r = st.fresh('round')
        half = z3.RealVal(str(fractions.Fraction(1, 2) / fractions.Fraction(10) ** int(n or 0)))
        st.define(r - s.t <= half, s.t - r <= half)
        st.notes.append('round()')
        return SymReal(r)

    def item(s):
        return s

    def __array_ufunc__(self, ufunc, method, *inputs, **kw):
        return _ufunc(ufunc, method, *inputs, **kw)

    def __format__(s, spec):
        return repr(s)


def _box(x):
    b = numpy.empty((), dtype=object)
    b[()] = x
    return b


_CMP = {
    'less': operator.lt, 'greater': operator.gt, 'less_equal': operator.le,
    'greater_equal': operator.ge, 'equal': operator.eq, 'not_equal': operator.ne,
}


def lift(x):
    """Wrap a concrete finite number as SymReal (pass through symbolic / nonfinite)."""
    if isinstance(x, (SymReal,)):
        return x
    if isinstance(x, SymInt):
        return SymReal(z3.ToReal(x.t))
    if _nonfinite(x) is not None:
        return float(x)
    return SymReal(toz(x))


def _ufunc(ufunc, method, *inputs, **kw):
    if method != '__call__':
        if method == 'reduce' and ufunc.__name__ in ('add', 'multiply', 'maximum', 'minimum', 'logical_and', 'logical_or'):
            arr = numpy.asarray(inputs[0], dtype=object)
            op = {'add': operator.add, 'multiply': operator.mul, 'maximum': sym_max, 'minimum': sym_min,
                  'logical_and': lambda a, b: a & b, 'logical_or': lambda a, b: a | b}[ufunc.__name__]
            it = iter(arr.ravel())
            acc = next(it)
            for v in it:
                acc = op(acc, v)
            return acc
        return NotImplemented
    name = ufunc.__name__
    kw.pop('out', None) if kw.get('out') is None else None
    if any(_is_arr(x) for x in inputs):
        arrs = numpy.broadcast_arrays(*[x.view(numpy.ndarray) if isinstance(x, numpy.ndarray) else _box(x) for x in inputs])
        out = numpy.empty(arrs[0].shape, dtype=object)
        for idx in numpy.ndindex(arrs[0].shape):
            args = [ar[idx] for ar in arrs]
            out[idx] = _ufunc(ufunc, method, *args)
        if name in _CMP or name in ('isnan', 'isfinite', 'isinf'):
            if not any(isinstance(v, SymBool) for v in out.ravel()):
                return out.astype(bool)
        return out
    a = [x.item() if isinstance(x, numpy.ndarray) else x for x in inputs]
    if not any(is_sym(x) for x in a):
        return ufunc(*a)
    if name in ('sqrt', 'log', 'exp', 'log10', 'log2', 'log1p', 'expm1'):
        return getattr(lift(a[0]), name)()
    if name == 'isnan':
        return numpy.bool_(False)
    if name == 'isinf':
        return numpy.bool_(False)
    if name == 'isfinite':
        return numpy.bool_(True)
    if name == 'multiply':
        return operator.mul(*_l2(a))
    if name == 'add':
        return operator.add(*_l2(a))
    if name == 'subtract':
        return operator.sub(*_l2(a))
    if name in ('true_divide', 'divide'):
        return operator.truediv(*_l2(a))
    if name in ('power', 'float_power'):
        x, y = a
        if isinstance(x, (SymReal, SymInt)):
            return lift(x) ** y
        return lift(y).__rpow__(x)
    if name == 'square':
        return lift(a[0]) * lift(a[0])
    if name == 'reciprocal':
        return 1 / lift(a[0])
    if name == 'negative':
        return -lift(a[0])
    if name == 'positive':
        return a[0]
    if name in ('absolute', 'fabs'):
        return abs(lift(a[0]))
    if name == 'sign':
        x = lift(a[0])
        return 1.0 if x > 0 else (-1.0 if x < 0 else 0.0)
    if name == 'clip':
        x, lo, hi = a
        if lo is not None:
            x = sym_max(x, lo)
        if hi is not None:
            x = sym_min(x, hi)
        return x
    if name == 'maximum':
        return sym_max(*a)
    if name == 'minimum':
        return sym_min(*a)
    if name in _CMP:
        x, y = a
        if isinstance(x, SymBool) or isinstance(y, SymBool):
            return _CMP[name](x, y)
        nx, ny = _nonfinite(x), _nonfinite(y)
        if nx is not None and not is_sym(x):
            # concrete nonfinite on the left: flip
            flip = {'less': 'greater', 'greater': 'less', 'less_equal': 'greater_equal',
                    'greater_equal': 'less_equal', 'equal': 'equal', 'not_equal': 'not_equal'}[name]
            return _CMP[flip](lift(y), x)
        return _CMP[name](lift(x), y)
    if name in ('logical_and', 'bitwise_and'):
        return a[0] & a[1]
    if name in ('logical_or', 'bitwise_or'):
        return a[0] | a[1]
    if name in ('logical_not', 'invert'):
        return ~a[0] if isinstance(a[0], SymBool) else (not a[0])
    raise Unsupported(f'ufunc {name} on symbolic value')


def _l2(a):
    x, y = a
    if _nonfinite(x) is not None and not is_sym(x):
        return float(x), lift(y)     # float op SymReal -> SymReal.__r*__
    return lift(x), y


def sym_max(a, b):
    if not is_sym(a) and not is_sym(b):
        return max(a, b)
    return a if (lift(a) >= b) else b


def sym_min(a, b):
    if not is_sym(a) and not is_sym(b):
        return min(a, b)
    return a if (lift(a) <= b) else b


# --------------------------------------------------------------------------
class SymInt:
    __array_priority__ = 1000

    def __init__(self, t):
        self.t = t

    @staticmethod
    def _z(o):
        if isinstance(o, SymInt):
            return o.t
        if isinstance(o, (bool, numpy.bool_)):
            return z3.IntVal(int(o))
        if isinstance(o, (int, numpy.integer)):
            return z3.IntVal(int(o))
        raise TypeError(type(o))

    def _bin(s, o, f, rev=False):
        if isinstance(o, SymReal) or isinstance(o, (float, numpy.floating)):
            r = SymReal(z3.ToReal(s.t))
            return NotImplemented if not rev else NotImplemented
        try:
            oz = SymInt._z(o)
        except TypeError:
            return NotImplemented
        return SymInt(f(oz, s.t) if rev else f(s.t, oz))

    def _asreal(s):
        return SymReal(z3.ToReal(s.t))

    def __add__(s, o):
        if isinstance(o, (SymReal, float, numpy.floating)):
            return s._asreal() + o
        return s._bin(o, operator.add)

    def __radd__(s, o):
        if isinstance(o, (SymReal, float, numpy.floating)):
            return o + s._asreal()
        return s._bin(o, operator.add, True)

    def __sub__(s, o):
        if isinstance(o, (SymReal, float, numpy.floating)):
            return s._asreal() - o
        return s._bin(o, operator.sub)

    def __rsub__(s, o):
        if isinstance(o, (SymReal, float, numpy.floating)):
            return o - s._asreal()
        return s._bin(o, operator.sub, True)

    def __mul__(s, o):
        if isinstance(o, (SymReal, float, numpy.floating)):
            return s._asreal() * o
        return s._bin(o, operator.mul)

    def __rmul__(s, o):
        if isinstance(o, (SymReal, float, numpy.floating)):
            return o * s._asreal()
        return s._bin(o, operator.mul, True)

    def __truediv__(s, o):
        return s._asreal() / o

    def __rtruediv__(s, o):
        return o / s._asreal()

    def __neg__(s):
        return SymInt(-s.t)

    def _cmp(s, o, op):
        if isinstance(o, (SymReal, float, numpy.floating)):
            return op(s._asreal(), o)
        try:
            return SymBool(op(s.t, SymInt._z(o)))
        except TypeError:
            return NotImplemented

    def __lt__(s, o):
        return s._cmp(o, operator.lt)

    def __le__(s, o):
        return s._cmp(o, operator.le)

    def __gt__(s, o):
        return s._cmp(o, operator.gt)

    def __ge__(s, o):
        return s._cmp(o, operator.ge)

    def __eq__(s, o):
        r = s._cmp(o, operator.eq)
        return False if r is NotImplemented else r

    def __ne__(s, o):
        r = s._cmp(o, operator.ne)
        return True if r is NotImplemented else r

    def __hash__(s):
        return hash(s.__index__())

    def __bool__(s):
        return cur().branch(s.t != 0)

    def __index__(s):
        """Concretise by forking over the feasible values."""
        st = cur()
        v = z3.simplify(s.t)
        if z3.is_int_value(v):
            return v.as_long()
        for _ in range(64):
            r = st.check(z3.BoolVal(True))
            if r != 'sat':
                raise Budget('cannot enumerate symbolic int')
            val = st.model.eval(s.t, model_completion=True).as_long()
            if st.branch(s.t == val):
                return val
        raise Budget('symbolic int has too many values')

    __int__ = __index__

    def __repr__(s):
        return f'SymInt({s.t})'


# --------------------------------------------------------------------------
# symbolic differentiation over z3 real terms

def diff(term, var, st):
    """d term / d var, following the implicit definitions recorded in st."""
    cache = {}

    def d(t):
        k = t.get_id()
        if k in cache:
            return cache[k]
        r = _d(t)
        cache[k] = r
        return r

    def _d(t):
        if z3.eq(t, var):
            return z3.RealVal(1)
        if z3.is_rational_value(t) or z3.is_int_value(t):
            return z3.RealVal(0)
        kind = t.decl().kind()
        ch = t.children()
        if kind == z3.Z3_OP_UNINTERPRETED and not ch:
            imp = st.implicit.get(t.get_id())
            if imp is None:
                return z3.RealVal(0)
            if imp[0] == 'root':
                _, a, b, x, y = imp
                dx = d(x)
                num = a * (_pow_int(x, a - 1) if a > 1 else z3.RealVal(1)) * dx
                den = b * (_pow_int(y, b - 1) if b > 1 else z3.RealVal(1))
                return num / den
            if imp[0] == 'log':
                _, x, y = imp
                return d(x) / x
            if imp[0] == 'exp':
                _, y, x = imp
                return x * d(y)
        if kind == z3.Z3_OP_ADD:
            return z3.Sum([d(c) for c in ch])
        if kind == z3.Z3_OP_SUB:
            r = d(ch[0])
            for c in ch[1:]:
                r = r - d(c)
            return r
        if kind == z3.Z3_OP_UMINUS:
            return -d(ch[0])
        if kind == z3.Z3_OP_MUL:
            terms = []
            for i, c in enumerate(ch):
                dc = d(c)
                if z3.is_rational_value(dc) and dc.numerator_as_long() == 0:
                    continue
                others = [o for j, o in enumerate(ch) if j != i]
                p = dc
                for o in others:
                    p = p * o
                terms.append(p)
            return z3.Sum(terms) if terms else z3.RealVal(0)
        if kind == z3.Z3_OP_DIV:
            a, b = ch
            return (d(a) * b - a * d(b)) / (b * b)
        if kind == z3.Z3_OP_TO_REAL:
            return z3.RealVal(0)
        if kind == z3.Z3_OP_ITE:
            return z3.If(ch[0], d(ch[1]), d(ch[2]))
        raise Unsupported(f'cannot differentiate {t.decl()}')

    return d(term)


# --------------------------------------------------------------------------
class Path:
    __slots__ = ('pc', 'defs', 'pairs', 'outcome', 'value', 'trace', 'state', 'notes')

    def __init__(self, st, outcome, value):
        self.pc = list(st.pc)
        self.defs = list(st.defs)
        self.pairs = list(st.pairs)
        self.outcome = outcome     # 'ok' | 'exc'
        self.value = value
        self.trace = list(st.trace)
        self.state = st
        self.notes = list(st.notes)


def new_stats():
    return {'feas_queries': 0, 'feas_unknown': 0, 'solver_s': 0.0, 'paths': 0, 'aborted': 0,
            'decisions': 0, 'truncated': []}


def explore(fn, base=(), stats=None, max_paths=5000, wall_s=None):
    """Run fn() once per feasible path.  fn builds its own symbols (deterministic
    names) and returns a value; ordinary exceptions are recorded as outcomes."""
    global CUR
    stats = stats if stats is not None else new_stats()
    todo = [[]]
    out = []
    deadline = time.time() + wall_s if wall_s else None
    while todo:
        if len(out) >= max_paths:
            raise Budget(f'more than {max_paths} paths')
        pre = todo.pop()
        st = State(pre, list(base), stats, deadline)
        st.todo = todo
        prev = CUR
        CUR = st
        try:
            try:
                r = ('ok', fn())
            except Abort:
                stats['aborted'] += 1
                continue
            except (Unsupported, Budget):
                raise
            except Exception as e:      # noqa: BLE001 - outcomes of the code under test
                r = ('exc', e)
        finally:
            CUR = prev
        stats['paths'] += 1
        stats['decisions'] += len(st.trace)
        out.append(Path(st, r[0], r[1]))
    return out


def decide(path, violation, timeout_ms=60000, closure=False, tangent=False, extra=(), stats=None):
    """Is `violation` satisfiable on this path?  -> ('unsat'|'sat'|'unknown', model)"""
    s = z3.Solver()
    s.set('timeout', timeout_ms)
    s.add(*path.pc)
    s.add(*path.defs)
    if closure:
        s.add(*path.state.closure_axioms())
    if tangent:
        s.add(*path.state.tangent_axioms())
    s.add(*extra)
    s.add(violation)
    t0 = time.time()
    r = guarded_check(s, timeout_ms)
    dt = time.time() - t0
    if stats is not None:
        stats['solver_s'] += dt
    m = s.model() if r == 'sat' else None
    return r, m


def model_num(m, term, default=None):
    """Numeric (Fraction) value of a real/int term in model m."""
    v = m.eval(term, model_completion=True)
    if z3.is_rational_value(v):
        return fractions.Fraction(v.numerator_as_long(), v.denominator_as_long())
    if z3.is_int_value(v):
        return fractions.Fraction(v.as_long())
    if z3.is_algebraic_value(v):
        a = v.approx(30)
        return fractions.Fraction(a.numerator_as_long(), a.denominator_as_long())
    if z3.is_true(v):
        return True
    if z3.is_false(v):
        return False
    if default is not None:
        return default
    raise Unsupported(f'cannot read model value of {term}: {v}')


# --------------------------------------------------------------------------
class SymArray(numpy.ndarray):
    """object ndarray whose ufuncs are applied elementwise through the proxy semantics, so that
    numpy.isnan / numpy.log / comparisons work on arrays with symbolic contents."""

    def __array_ufunc__(self, ufunc, method, *inputs, **kw):
        ins = [numpy.asarray(x).view(numpy.ndarray) if isinstance(x, SymArray) else x for x in inputs]
        if method != '__call__':
            if method in ('reduce', 'accumulate'):
                # numpy's own object-dtype loops use the Python operators of the elements (axis / keepdims honoured)
                plain = [numpy.asarray(x).view(numpy.ndarray) if isinstance(x, numpy.ndarray) else x for x in inputs]
                kw.pop('out', None)
                r = getattr(ufunc, method)(*plain, **kw)
                return r.view(SymArray) if isinstance(r, numpy.ndarray) and r.dtype == object and r.ndim > 0 else r
            return NotImplemented
        out = kw.pop('out', None)
        if kw.get('where', True) is not True:
            raise Unsupported('ufunc where= on SymArray')
        r = _ufunc(ufunc, method, *[x if isinstance(x, numpy.ndarray) else x for x in ins])
        if out is not None:
            # in-place operation (a /= b): write through, exactly like numpy does (aliasing is observable)
            tgt = out[0] if isinstance(out, tuple) else out
            numpy.asarray(tgt).view(numpy.ndarray)[...] = r
            return tgt
        if isinstance(r, numpy.ndarray) and r.dtype == object:
            return r.view(SymArray)
        return r

    def any(self, *a, **k):
        r = False
        for v in numpy.asarray(self).view(numpy.ndarray).ravel():
            if bool(v):
                return True
        return r

    def all(self, *a, **k):
        for v in numpy.asarray(self).view(numpy.ndarray).ravel():
            if not bool(v):
                return False
        return True


def symarray(items):
    a = numpy.empty(len(items), dtype=object)
    for i, v in enumerate(items):
        a[i] = v
    return a.view(SymArray)


def nan_to_num_obj(x, copy=True, nan=0.0, posinf=None, neginf=None):
    """numpy.nan_to_num with float semantics for object arrays / proxies (concrete nan/inf replaced)."""
    big = numpy.finfo(float).max
    def fix(v):
        n = _nonfinite(v)
        if n is None:
            return v
        if math.isnan(n):
            return nan
        return (posinf if posinf is not None else big) if n > 0 else (neginf if neginf is not None else -big)
    if isinstance(x, numpy.ndarray) and x.dtype == object:
        out = numpy.empty(x.shape, dtype=object)
        for idx in numpy.ndindex(x.shape):
            out[idx] = fix(x[idx])
        return out.view(type(x)) if x.ndim else out[()]
    if is_sym(x):
        return x
    return _REAL_NAN_TO_NUM(x, copy=copy, nan=nan, posinf=posinf, neginf=neginf)


_REAL_NAN_TO_NUM = numpy.nan_to_num


# --------------------------------------------------------------------------
_FLOATISH = (float, numpy.float64, numpy.floating, 'float', 'float64', 'f8', 'd')


def _has_sym(a):
    if is_sym(a):
        return True
    if isinstance(a, numpy.ndarray):
        return a.dtype == object and any(is_sym(v) for v in a.ravel())
    if isinstance(a, (list, tuple)):
        return any(_has_sym(v) for v in a)
    if hasattr(a, 'values') and hasattr(a, 'dtype'):
        return _has_sym(getattr(a, 'values'))
    return False


def float_coercion_patches():
    """numpy.asarray / numpy.array / numpy.asanyarray called with dtype=float on symbolic contents keep the object
    dtype (a symbolic real *is* a float for the purposes of the encoding).  Only the top-level numpy attributes that
    library code reaches are wrapped; numpy's own internals are untouched."""
    out = []
    for name in ('asarray', 'array', 'asanyarray', 'ascontiguousarray'):
        orig = getattr(numpy, name)

        def make(orig):
            def wrapper(a, dtype=None, *args, **kw):
                try:
                    floatish = dtype in _FLOATISH
                except TypeError:
                    floatish = False
                if floatish and _has_sym(a):
                    r = orig(a, object, *args, **kw)
                    return r.view(SymArray) if isinstance(r, numpy.ndarray) and r.ndim > 0 else r
                r = orig(a, *args, **kw) if dtype is None else orig(a, dtype, *args, **kw)
                if isinstance(r, numpy.ndarray) and r.dtype == object and r.ndim > 0 and type(r) is numpy.ndarray and _has_sym(r):
                    return r.view(SymArray)     # keep the proxy-aware array type through asarray()
                return r
            wrapper.__wrapped__ = orig
            return wrapper
        out.append((numpy, name, make(orig)))
    orig_isclose, orig_allclose = numpy.isclose, numpy.allclose

    def isclose(a, b, rtol=1e-05, atol=1e-08, equal_nan=False):
        # numpy's definition |a - b| <= atol + rtol |b| on symbolic contents (finite values)
        if _has_sym(a) or _has_sym(b):
            A = a if isinstance(a, (SymReal, SymInt)) else numpy.asarray(a, dtype=object)
            B = b if isinstance(b, (SymReal, SymInt)) else numpy.asarray(b, dtype=object)
            if isinstance(A, numpy.ndarray) and A.ndim > 0:
                A = A.view(SymArray)
            if isinstance(B, numpy.ndarray) and B.ndim > 0:
                B = B.view(SymArray)
            r = abs(A - B) <= atol + rtol * abs(B)
            # numpy returns a BOOL array (usable as a mask): decide every element now (forks the path per element)
            if isinstance(r, numpy.ndarray):
                return numpy.array([bool(v) for v in r.ravel()], dtype=bool).reshape(r.shape)
            return bool(r)
        return orig_isclose(a, b, rtol=rtol, atol=atol, equal_nan=equal_nan)

    def allclose(a, b, rtol=1e-05, atol=1e-08, equal_nan=False):
        if _has_sym(a) or _has_sym(b):
            r = isclose(a, b, rtol=rtol, atol=atol, equal_nan=equal_nan)
            return bool(numpy.all(r)) if isinstance(r, numpy.ndarray) else bool(r)
        return orig_allclose(a, b, rtol=rtol, atol=atol, equal_nan=equal_nan)
    orig_interp = numpy.interp

    def interp(x, xp, fp, left=None, right=None, period=None):
        # numpy's arr_interp for len(xp) <= 4 (linear search branch of binary_search_with_guess), on symbolic contents; xp is
        # NOT assumed increasing - numpy does not check it either, and what it then returns is part of its behaviour
        if not (_has_sym(x) or _has_sym(xp) or _has_sym(fp)):
            return orig_interp(x, xp, fp, left=left, right=right, period=period)
        if period is not None:
            raise Unsupported('numpy.interp(period=...) on symbolic values')
        dx = list(numpy.asarray(xp, dtype=object).ravel())
        dy = list(numpy.asarray(fp, dtype=object).ravel())
        n = len(dx)
        if n == 0 or n != len(dy):
            raise ValueError('fp and xp are not of the same length.' if n else 'array of sample points is empty')
        if n > 4:
            raise Unsupported('numpy.interp on more than 4 symbolic nodes (binary search with guess not modelled)')
        lval = dy[0] if left is None else left
        rval = dy[-1] if right is None else right
        xs = numpy.asarray(x, dtype=object)
        out = []
        for xv in xs.ravel():
            if xv > dx[-1]:
                out.append(rval)
                continue
            if xv < dx[0]:
                out.append(lval)
                continue
            i = 1
            while i < n and xv >= dx[i]:
                i += 1
            j = i - 1
            if j == n - 1 or dx[j] == xv:
                out.append(dy[j])
            else:
                slope = (dy[j + 1] - dy[j]) / (dx[j + 1] - dx[j])
                out.append(slope * (xv - dx[j]) + dy[j])
        if xs.ndim == 0:
            return out[0]
        r = numpy.empty(len(out), dtype=object)
        for i_, v in enumerate(out):
            r[i_] = v
        return r.reshape(xs.shape).view(SymArray)
    interp.__wrapped__ = orig_interp
    out.append((numpy, 'interp', interp))
    isclose.__wrapped__, allclose.__wrapped__ = orig_isclose, orig_allclose
    out.append((numpy, 'isclose', isclose))
    out.append((numpy, 'allclose', allclose))
    return out
