"""C02 - permanent conversions keep the isotherm consistent over any history (inductive step)."""
import copy
import itertools

import numpy
import pandas

from ..core import Obligation
from .. import symx, stubs, isofix, oracle_units as O
from . import c01

ASSUMPTIONS = [
    'induction over histories: one conversion step from an arbitrary valid, consistent state (labels any of the '
    'representations the constructor accepts, data = symbolic base quantity expressed in that representation); the base case '
    'is the constructor itself',
    'k = 3 symbolic rows (two adsorption, one desorption) + branch column + one numeric and one text extra column + non-default index',
    'FakeState adsorbate, symbolic material density / molar mass; real arithmetic',
    'labels a mutator does not handle are held at two representative values; the frame claims show they are not touched',
    'a call that names an impossible target may raise (state must be unchanged) or return (state must be valid and consistent)',
]
FUNCS = ['pygaps.core.pointisotherm:PointIsotherm.convert', 'pygaps.core.pointisotherm:PointIsotherm.convert_pressure',
         'pygaps.core.pointisotherm:PointIsotherm.convert_loading', 'pygaps.core.pointisotherm:PointIsotherm.convert_material',
         'pygaps.core.baseisotherm:BaseIsotherm.convert_temperature', 'pygaps.core.baseisotherm:BaseIsotherm.temperature',
         'pygaps.units.converter_mode:c_pressure', 'pygaps.units.converter_mode:c_loading', 'pygaps.units.converter_mode:c_material']

LABELS = ('pressure_mode', 'pressure_unit', 'loading_basis', 'loading_unit', 'material_basis', 'material_unit', 'temperature_unit')
FR = ('fraction', 'percent')


def tabs():
    return c01.tables()


class Env:
    """symbolic world shared by all calls of one path: temperature, adsorbate, material, base data"""

    def __init__(self, h, k=3):
        self.h = h
        self.TK = h.real('T', pos=True)
        self.ads = stubs.fake_adsorbate(h, 'fakegas', 'f')
        if h.sym:
            self.ads._state.positivity(self.TK)
        self.mat = isofix.sym_material(h)
        self.d = self.mat.properties['density']
        self.mm = self.mat.properties['molar_mass']
        self.th = O.Thermo(self.ads._state.molar_mass() * 1000, h.fun('rhomolar_f', 0.0, self.TK) / 10 ** 6,
                           h.fun('rhomolar_f', 1.0, self.TK) / 10 ** 6)
        self.psat = h.fun('psat_f', self.TK)
        self.dp = isofix.increasing(h, [f'dp{i}' for i in range(k)])
        self.dn = isofix.increasing(h, [f'dn{i}' for i in range(k)])
        self.extra_num = [h.real(f'ex{i}') for i in range(k)]
        self.k = k

    def make(self, S):
        """fresh isotherm in label state S holding the symbolic data"""
        h = self.h
        T = self.TK if S['temperature_unit'] == 'K' else self.TK - 273.15
        extra = {'enthalpy': isofix.column(h, self.extra_num), 'note': ['a', 'b', 'c'][:self.k]}
        iso = isofix.point_iso(h, self.dp, self.dn, units=S, ads=self.ads, mat=self.mat, T=T, branch=[0, 0, 1][:self.k],
                               extra=extra, index=[7, 3, 5][:self.k], properties={'user_key': 'user value', 'n': 3})
        return iso

    # ghost canonical quantities of a state + data
    def base_of(self, S, dp, dn):
        bp = [O.pressure_to_pa(v, S['pressure_mode'], S['pressure_unit'], self.psat) for v in dp]
        bn = [O.loading_to_mol(O.material_to_per_g(v, S['material_basis'], S['material_unit'], self.d, self.mm),
                               S['loading_basis'], S['loading_unit'], self.th, S['material_basis'], S['material_unit'])
              for v in dn]
        return bp, bn

    def data_of(self, S, bp, bn):
        dp = [O.pressure_from_pa(v, S['pressure_mode'], S['pressure_unit'], self.psat) for v in bp]
        dn = [O.material_from_per_g(O.loading_from_mol(v, S['loading_basis'], S['loading_unit'], self.th,
                                                       S['material_basis'], S['material_unit']),
                                    S['material_basis'], S['material_unit'], self.d, self.mm) for v in bn]
        return dp, dn


def labels_of(iso):
    return {k: getattr(iso, k) for k in LABELS}


def snapshot(iso):
    df = iso.data_raw
    return dict(labels=labels_of(iso), p=list(df[iso.pressure_key]), n=list(df[iso.loading_key]), branch=list(df['branch']),
                cols=list(df.columns), index=list(df.index), enthalpy=list(df['enthalpy']), note=list(df['note']),
                props=copy.deepcopy({k: v for k, v in iso.properties.items()}), mat=id(iso._material), ads=id(iso._adsorbate),
                T=iso._temperature, keys=(iso.pressure_key, iso.loading_key))


def frame_same(h, a, b):
    """everything a conversion must never touch"""
    ok = (a['branch'] == b['branch'] and a['cols'] == b['cols'] and a['index'] == b['index'] and a['note'] == b['note']
          and a['props'] == b['props'] and a['mat'] == b['mat'] and a['ads'] == b['ads'] and a['keys'] == b['keys']
          and len(a['enthalpy']) == len(b['enthalpy']))
    if not ok:
        return False
    r = True
    for x, y in zip(a['enthalpy'], b['enthalpy']):
        r = r & h.eq(x, y)
    return r


def data_same(h, a, b, tol=0.0):
    r = True
    if len(a['p']) != len(b['p']):
        return False
    for x, y in zip(a['p'] + a['n'], b['p'] + b['n']):
        r = r & (h.eq(x, y) if tol == 0 else h.close(x, y, tol))
    return r


def valid_labels(L):
    """would the constructor accept these labels? (runs the real BaseIsotherm.__init__ checks)"""
    from pygaps.core.baseisotherm import BaseIsotherm
    try:
        BaseIsotherm(material='m', adsorbate='fakegas-placeholder', temperature=300.0, **L)
        return True
    except Exception:      # noqa: BLE001
        return False


def state_tol(S):
    return O.tol(S['pressure_unit'], S['loading_unit'], S['material_unit'])


def consistent(h, env, S, snap, bp, bn, S0=None):
    """data == base expressed in representation S (oracle) - raises KeyError if S is not a representation at all"""
    try:
        dp, dn = env.data_of(S, bp, bn)
    except (KeyError, TypeError):
        return False
    S0 = S0 or {}
    # the ghost base was read off the pre-state with exact SI factors, the library uses its rounded constants
    tolp = O.tol(S['pressure_unit'], S0.get('pressure_unit')) * 2 + 2e-12
    toln = (O.tol(S['loading_unit'], S['material_unit'], S0.get('loading_unit'), S0.get('material_unit'))) * 2 + 2e-12
    r = True
    for got, want in zip(snap['p'], dp):
        r = r & h.close(got, want, tolp)
    for got, want in zip(snap['n'], dn):
        r = r & h.close(got, want, toln)
    return r


# --------------------------------------------------------------------------
# label-transition oracle (documented argument meaning; see DESIGN appendix to C02)

def exp_pressure(S, mode_to, unit_to):
    cm = tabs()
    mode = mode_to if mode_to else S['pressure_mode']
    if mode not in cm._PRESSURE_MODE:
        return None
    if mode == 'absolute':
        if unit_to:
            if unit_to not in cm._PRESSURE_MODE['absolute']:
                return None
            unit = unit_to
        elif S['pressure_mode'] == 'absolute':
            unit = S['pressure_unit']
        else:
            return None
    else:
        unit = None
    return dict(S, pressure_mode=mode, pressure_unit=unit)


def exp_loading(S, basis_to, unit_to):
    cm = tabs()
    basis = basis_to if basis_to else S['loading_basis']
    if basis not in cm._LOADING_MODE:
        return None
    if basis in FR:
        unit = None
    elif unit_to:
        if unit_to not in cm._LOADING_MODE[basis]:
            return None
        unit = unit_to
    elif basis == S['loading_basis']:
        unit = S['loading_unit']
    else:
        return None
    return dict(S, loading_basis=basis, loading_unit=unit)


def exp_material(S, basis_to, unit_to):
    cm = tabs()
    basis = basis_to if basis_to else S['material_basis']
    if basis not in cm._MATERIAL_MODE:
        return None
    if unit_to:
        if unit_to not in cm._MATERIAL_MODE[basis]:
            return None
        unit = unit_to
    elif basis == S['material_basis']:
        unit = S['material_unit']
    else:
        return None
    return dict(S, material_basis=basis, material_unit=unit)


def exp_temperature(S, unit_to):
    if unit_to and isinstance(unit_to, str) and 'c' in unit_to.lower():
        return dict(S, temperature_unit='°C')
    if unit_to == 'K':
        return dict(S, temperature_unit='K')
    return None


def check_step(h, env, S, call, expected, cid, regions=None):
    """one conversion step from state S; `expected` is the label state after a successful call or None if the
    request is impossible"""
    iso = env.make(S)
    pre = snapshot(iso)
    bp, bn = env.base_of(S, pre['p'], pre['n'])
    with isofix.interp_patch(h):
        iso.loading_at(pre['p'][0])         # fill the interpolator cache in the old representation
        iso.pressure_at(pre['n'][0])
        try:
            call(iso)
            raised = None
        except Exception as e:      # noqa: BLE001 - the class is recorded, only the state matters here
            raised = e
        post = snapshot(iso)
        try:
            l_after = iso.loading_at(post['p'][0])
            l_after = l_after.item() if isinstance(l_after, numpy.ndarray) else l_after
        except Exception as e:      # noqa: BLE001
            l_after = e
    regions = regions or {}
    h.claim(f'{cid}/frame', frame_same(h, pre, post), regions)
    # caches are invisible: interpolation at a measured point returns the stored loading in the *current* representation
    h.claim(f'{cid}/interpolation-after-call-uses-current-data',
            (not isinstance(l_after, Exception)) and h.close(l_after, post['n'][0], 1e-9), regions, info=repr(l_after)[:120])
    if raised is not None:
        h.claim(f'{cid}/refused=>state-unchanged', post['labels'] == pre['labels'] and data_same(h, pre, post)
                and h.eq(post['T'], pre['T']), regions, info=f'raised {type(raised).__name__}')
        return
    if expected is not None:
        h.claim(f'{cid}/labels==requested', post['labels'] == expected, regions, info=f"got {post['labels']} want {expected}")
    h.claim(f'{cid}/labels-valid', valid_labels(post['labels']), regions, info=str(post['labels']))
    h.claim(f'{cid}/data-consistent-with-labels', consistent(h, env, post['labels'], post, bp, bn, S), regions,
            info=str(post['labels']))
    # kelvin temperature never changes
    TK_after = iso.temperature if post['labels']['temperature_unit'] in ('K', '°C') else None
    h.claim(f'{cid}/kelvin-temperature-unchanged', TK_after is not None and h.close(TK_after, env.TK, 1e-12), regions)


# representative states for quantities a mutator does not handle
OTHER_REPS = [
    dict(loading_basis='molar', loading_unit='mmol', material_basis='mass', material_unit='g', temperature_unit='K'),
    dict(loading_basis='percent', loading_unit=None, material_basis='volume', material_unit='cm3', temperature_unit='°C'),
]
BADS = [None, '', stubs.OTHER]


def h_convert_pressure(h, rep, other_i):
    env = Env(h)
    cm = tabs()
    S = dict(OTHER_REPS[other_i], pressure_mode=rep[0], pressure_unit=rep[1])
    modes = list(cm._PRESSURE_MODE) + BADS
    units = list(cm._PRESSURE_MODE['absolute']) + BADS + ['g']
    for m, u in itertools.product(modes, units):
        check_step(h, env, S, lambda iso: iso.convert_pressure(mode_to=m, unit_to=u), exp_pressure(S, m, u),
                   f'C02/convert_pressure/{rep[0]}:{rep[1]}/({m!r},{u!r})')


def _loading_unit_args(cm, S, basis_to):
    b = basis_to if basis_to in cm._LOADING_MODE else S['loading_basis']
    us = list(cm._LOADING_MODE.get(b) or [])
    return us + BADS + ['Pa'] + c01.other_family_units(cm._LOADING_MODE, b)[:1] if b not in FR else ['g'] + BADS


def h_convert_loading(h, rep, mrep):
    env = Env(h)
    cm = tabs()
    S = dict(pressure_mode='absolute', pressure_unit='bar', temperature_unit='K', loading_basis=rep[0], loading_unit=rep[1],
             material_basis=mrep[0], material_unit=mrep[1])
    for b in list(cm._LOADING_MODE) + BADS + ['volume']:
        for u in _loading_unit_args(cm, S, b):
            check_step(h, env, S, lambda iso: iso.convert_loading(basis_to=b, unit_to=u), exp_loading(S, b, u),
                       f'C02/convert_loading/{rep[0]}:{rep[1]}@{mrep[0]}:{mrep[1]}/({b!r},{u!r})')


def h_convert_material(h, mrep, lrep):
    env = Env(h)
    cm = tabs()
    S = dict(pressure_mode='relative', pressure_unit=None, temperature_unit='K', loading_basis=lrep[0], loading_unit=lrep[1],
             material_basis=mrep[0], material_unit=mrep[1])
    for b in list(cm._MATERIAL_MODE) + BADS + ['fraction']:
        bb = b if b in cm._MATERIAL_MODE else S['material_basis']
        for u in list(cm._MATERIAL_MODE[bb]) + BADS + ['Pa'] + c01.other_family_units(cm._MATERIAL_MODE, bb)[:1]:
            check_step(h, env, S, lambda iso: iso.convert_material(basis_to=b, unit_to=u), exp_material(S, b, u),
                       f'C02/convert_material/{mrep[0]}:{mrep[1]}|{lrep[0]}:{lrep[1]}/({b!r},{u!r})')


def h_convert_temperature(h, tu, other_i):
    env = Env(h)
    S = dict(OTHER_REPS[other_i], pressure_mode='absolute', pressure_unit='kPa', temperature_unit=tu)
    for u in ['K', '°C', 'C', 'celsius', 'degC'] + BADS + ['F']:
        check_step(h, env, S, lambda iso: iso.convert_temperature(u), exp_temperature(S, u),
                   f'C02/convert_temperature/{tu}/({u!r})')


COMBINED = [
    dict(pressure_mode='relative'),
    dict(pressure_unit='Pa', loading_unit='mol'),
    dict(pressure_mode='relative%', material_basis='volume', material_unit='cm3', loading_basis='mass', loading_unit='mg'),
    dict(material_unit='kg', loading_basis='fraction'),
    dict(loading_basis='volume_liquid', loading_unit='cm3', material_basis='molar', material_unit='mmol'),
    dict(pressure_mode='absolute'),
    dict(loading_basis='molar'),
    dict(material_basis='mass'),
    # refused part-way: the completed prefix (pressure, then material) stays
    dict(pressure_unit='Pa', material_unit='kg', loading_basis='mass', loading_unit=stubs.OTHER),
    dict(pressure_unit='Pa', material_basis='volume', material_unit='Pa', loading_unit='mol'),
    dict(pressure_mode=stubs.OTHER, material_unit='kg'),
]


def h_convert_combined(h, si, ci):
    """convert(): composition in the order pressure, material, loading; refusal leaves the completed prefix"""
    env = Env(h)
    S0 = [dict(pressure_mode='absolute', pressure_unit='bar', loading_basis='molar', loading_unit='mmol', material_basis='mass',
               material_unit='g', temperature_unit='K'),
          dict(pressure_mode='relative', pressure_unit=None, loading_basis='percent', loading_unit=None, material_basis='mass',
               material_unit='kg', temperature_unit='°C'),
          dict(pressure_mode='absolute', pressure_unit='torr', loading_basis='volume_gas', loading_unit='L', material_basis='volume',
               material_unit='cm3', temperature_unit='K')][si]
    kw = COMBINED[ci]
    # expected: fold the three single-quantity oracles in the documented order, stopping at the first impossible request
    exp = dict(S0)
    steps = []
    if kw.get('pressure_mode') or kw.get('pressure_unit'):
        steps.append(lambda S: exp_pressure(S, kw.get('pressure_mode'), kw.get('pressure_unit')))
    if kw.get('material_basis') or kw.get('material_unit'):
        steps.append(lambda S: exp_material(S, kw.get('material_basis'), kw.get('material_unit')))
    if kw.get('loading_basis') or kw.get('loading_unit'):
        steps.append(lambda S: exp_loading(S, kw.get('loading_basis'), kw.get('loading_unit')))
    complete = True
    for st in steps:
        nxt = st(exp)
        if nxt is None:
            complete = False
            break
        exp = nxt
    iso = env.make(S0)
    pre = snapshot(iso)
    bp, bn = env.base_of(S0, pre['p'], pre['n'])
    try:
        iso.convert(**kw)
        raised = None
    except Exception as e:     # noqa: BLE001
        raised = e
    post = snapshot(iso)
    cid = f'C02/convert/state{si}/{ci}'
    h.claim(f'{cid}/frame', frame_same(h, pre, post))
    if raised is None and complete:
        h.claim(f'{cid}/labels==requested', post['labels'] == exp, info=f"got {post['labels']} want {exp}")
    if raised is not None:
        h.claim(f'{cid}/refused=>effect-of-completed-prefix', post['labels'] == exp, info=f"got {post['labels']} want {exp}")
    h.claim(f'{cid}/labels-valid', valid_labels(post['labels']), info=str(post['labels']))
    h.claim(f'{cid}/data-consistent-with-labels', consistent(h, env, post['labels'], post, bp, bn, S0), info=str(post['labels']))


def h_history(h, seq_i):
    """a few explicit multi-step histories end-to-end (the induction above covers all; these guard the glue):
    there-and-back restores the numbers"""
    env = Env(h)
    S0 = dict(pressure_mode='absolute', pressure_unit='bar', loading_basis='molar', loading_unit='mmol', material_basis='mass',
              material_unit='g', temperature_unit='K')
    seqs = [
        [('convert_pressure', dict(mode_to='relative')), ('convert_pressure', dict(mode_to='absolute', unit_to='bar'))],
        [('convert_loading', dict(basis_to='mass', unit_to='g')), ('convert_material', dict(basis_to='volume', unit_to='cm3')),
         ('convert_loading', dict(basis_to='percent')), ('convert_material', dict(basis_to='mass', unit_to='g')),
         ('convert_loading', dict(basis_to='molar', unit_to='mmol'))],
        [('convert_temperature', dict(unit_to='°C')), ('convert_pressure', dict(mode_to='relative%')),
         ('convert_temperature', dict(unit_to='K')), ('convert_pressure', dict(mode_to='absolute', unit_to='bar'))],
        [('convert', dict(pressure_mode='relative', loading_basis='volume_liquid', loading_unit='mL', material_basis='molar',
                          material_unit='mol')),
         ('convert', dict(pressure_mode='absolute', pressure_unit='bar', loading_basis='molar', loading_unit='mmol',
                          material_basis='mass', material_unit='g'))],
    ]
    iso = env.make(S0)
    pre = snapshot(iso)
    for name, kw in seqs[seq_i]:
        getattr(iso, name)(**kw)
    post = snapshot(iso)
    h.claim(f'C02/history/{seq_i}/labels-restored', post['labels'] == pre['labels'], info=str(post['labels']))
    h.claim(f'C02/history/{seq_i}/numbers-restored', data_same(h, pre, post, 1e-9))
    h.claim(f'C02/history/{seq_i}/frame', frame_same(h, pre, post))


HIST_TARGETS = {
    'pressure': [('absolute', 'bar'), ('absolute', 'Pa'), ('relative', None), ('relative%', None), ('absolute', None), (None, 'torr')],
    'loading': [('molar', 'mmol'), ('mass', 'mg'), ('volume_liquid', 'cm3'), ('fraction', None), ('percent', None), ('mass', None)],
    'material': [('mass', 'g'), ('mass', 'kg'), ('volume', 'cm3'), ('molar', 'mol'), ('volume', None)],
}
HIST_CALL = {'pressure': ('convert_pressure', 'mode_to', exp_pressure), 'loading': ('convert_loading', 'basis_to', exp_loading),
             'material': ('convert_material', 'basis_to', exp_material)}


def h_history3(h, quantity, first, lbasis):
    """bounded histories (complement of the inductive step: state the code keeps OUTSIDE the labels and the data - a hidden
    cache - is invisible to a one-step argument from a freshly built state).  Every 3-step sequence of conversions of one
    quantity over representative targets (incl. calls that omit the unit and are refused) on ONE isotherm object: after every
    step the labels are the expected ones and the data are the ghost base quantity expressed in them."""
    env = Env(h)
    S0 = dict(pressure_mode='absolute', pressure_unit='bar', loading_basis=lbasis, loading_unit=None if lbasis in FR else 'mmol',
              material_basis='mass', material_unit='g', temperature_unit='K')
    meth, kwname, exp_fn = HIST_CALL[quantity]
    targets = HIST_TARGETS[quantity]
    for second in range(len(targets)):
        for third in range(len(targets)):
            iso = env.make(S0)
            pre = snapshot(iso)
            bp, bn = env.base_of(S0, pre['p'], pre['n'])
            S = dict(S0)
            ok_labels, ok_data, info = True, True, ''
            for step, ti in enumerate((first, second, third)):
                a, b = targets[ti]
                before = snapshot(iso)
                try:
                    getattr(iso, meth)(**{kwname: a, 'unit_to': b})
                    raised = None
                except Exception as e:      # noqa: BLE001
                    raised = e
                post = snapshot(iso)
                if raised is not None:
                    ok_labels = ok_labels and post['labels'] == before['labels']
                    ok_data = ok_data & data_same(h, before, post)
                    info = info or f'step {step}: refused ({type(raised).__name__})'
                    continue
                want = exp_fn(S, a, b)
                if want is None or post['labels'] != want:
                    ok_labels = False
                    info = f'step {step} -> {(a, b)}: labels {post["labels"]} expected {want}'
                    break
                S = want
                ok_data = ok_data & consistent(h, env, S, post, bp, bn, S0)
            cid = f'C02/history3/{quantity}/{lbasis}/{first}-{second}-{third}'
            h.claim(f'{cid}/labels-after-every-step', ok_labels, info=info)
            h.claim(f'{cid}/data-after-every-step==base-in-current-labels', ok_data if ok_labels else True, info=info)


def h_backend_fails(h, ci):
    """conversions that need thermodynamic data the backend cannot deliver are refused without side effects"""
    env = Env(h)
    env.ads._state.fail = lambda what: True      # every backend call raises; no user properties -> CalculationError
    cases = [
        (dict(pressure_mode='absolute', pressure_unit='bar', loading_basis='molar', loading_unit='mmol', material_basis='mass',
              material_unit='g', temperature_unit='K'), lambda iso: iso.convert_pressure(mode_to='relative')),
        (dict(pressure_mode='absolute', pressure_unit='bar', loading_basis='molar', loading_unit='mmol', material_basis='mass',
              material_unit='g', temperature_unit='K'), lambda iso: iso.convert_loading(basis_to='volume_liquid', unit_to='cm3')),
        (dict(pressure_mode='absolute', pressure_unit='bar', loading_basis='fraction', loading_unit=None, material_basis='mass',
              material_unit='g', temperature_unit='K'), lambda iso: iso.convert_material(basis_to='volume', unit_to='cm3')),
        (dict(pressure_mode='absolute', pressure_unit='bar', loading_basis='percent', loading_unit=None, material_basis='volume',
              material_unit='cm3', temperature_unit='K'), lambda iso: iso.convert_material(basis_to='molar', unit_to='mol')),
        (dict(pressure_mode='absolute', pressure_unit='bar', loading_basis='molar', loading_unit='mmol', material_basis='mass',
              material_unit='g', temperature_unit='K'),
         lambda iso: iso.convert(pressure_unit='Pa', material_unit='kg', loading_basis='volume_gas', loading_unit='cm3')),
    ]
    S, call = cases[ci]
    iso = env.make(S)
    pre = snapshot(iso)
    try:
        call(iso)
        raised = None
    except Exception as e:     # noqa: BLE001
        raised = e
    post = snapshot(iso)
    cid = f'C02/backend-fails/{ci}'
    h.claim(f'{cid}/refused', raised is not None)
    h.claim(f'{cid}/frame', frame_same(h, pre, post))
    if ci < 4:
        h.claim(f'{cid}/state-unchanged', post['labels'] == pre['labels'] and data_same(h, pre, post))
    else:
        # combined call: pressure and material steps completed, loading step refused
        want = dict(S, pressure_unit='Pa', material_unit='kg')
        h.claim(f'{cid}/labels==completed-prefix', post['labels'] == want, info=str(post['labels']))
        ok = True
        for a, b in zip(post['p'], pre['p']):
            ok = ok & h.close(a, b * 100000, 1e-12)
        for a, b in zip(post['n'], pre['n']):
            ok = ok & h.close(a, b * 1000, 1e-12)
        h.claim(f'{cid}/data==completed-prefix', ok)


def h_base_case(h, si):
    """the constructor establishes the invariant: labels stored as given (relative => unit None), data untouched"""
    env = Env(h)
    S = [dict(pressure_mode='absolute', pressure_unit='bar', loading_basis='molar', loading_unit='mmol', material_basis='mass',
              material_unit='g', temperature_unit='K'),
         dict(pressure_mode='relative', pressure_unit='bar', loading_basis='fraction', loading_unit=None, material_basis='volume',
              material_unit='cm3', temperature_unit='°C')][si]
    iso = env.make(S)
    L = labels_of(iso)
    want = dict(S)
    if S['pressure_mode'] != 'absolute':
        want['pressure_unit'] = None
    h.claim(f'C02/base/{si}/labels', L == want, info=str(L))
    snap = snapshot(iso)
    r = True
    for a, b in zip(snap['p'] + snap['n'], env.dp + env.dn):
        r = r & h.eq(a, b)
    h.claim(f'C02/base/{si}/data-stored-unchanged', r)


def obligations(tier):
    obs = []
    kw = dict(funcs=FUNCS, stubs=['FakeState'], timeout_s=30 if tier == 'quick' else 120, validate=1, wall_s=900)
    for rep in c01.pressure_reps():
        for oi in (0, 1):
            obs.append(Obligation(f'C02/convert_pressure/{rep[0]}:{rep[1]}/other{oi}', h_convert_pressure, (rep, oi),
                                  bounds='k=3; all (mode_to, unit_to) in tables + {None, "", unknown, wrong family}', **kw))
    mreps_frac = c01.material_reps() if tier == 'thorough' else [('mass', 'g'), ('mass', 'kg'), ('volume', 'cm3'), ('molar', 'mol')]
    for rep in c01.loading_reps():
        ms = mreps_frac if (rep[0] in FR or tier == 'thorough') else [('mass', 'g'), ('volume', 'cm3')]
        for mrep in ms:
            obs.append(Obligation(f'C02/convert_loading/{rep[0]}:{rep[1]}@{mrep[0]}:{mrep[1]}', h_convert_loading, (rep, mrep),
                                  bounds='k=3; all basis_to x units of the target basis + bad labels', **kw))
    lreps = [('molar', 'mmol'), ('fraction', None), ('percent', None)] + ([('mass', 'g'), ('volume_gas', 'cm3')] if tier == 'thorough' else [])
    for mrep in c01.material_reps():
        for lrep in lreps:
            obs.append(Obligation(f'C02/convert_material/{mrep[0]}:{mrep[1]}|{lrep[0]}', h_convert_material, (mrep, lrep),
                                  bounds='k=3; all basis_to x units + bad labels', **kw))
    for tu in ('K', '°C'):
        for oi in (0, 1):
            obs.append(Obligation(f'C02/convert_temperature/{tu}/other{oi}', h_convert_temperature, (tu, oi), bounds='k=3', **kw))
    for si in range(3):
        for ci in range(len(COMBINED)):
            obs.append(Obligation(f'C02/convert/state{si}/{ci}', h_convert_combined, (si, ci), bounds='k=3; 3 start states x 11 argument sets', **kw))
    for i in range(4):
        obs.append(Obligation(f'C02/history/{i}', h_history, (i,), bounds='explicit histories of 2-5 steps', **kw))
    for q in ('pressure', 'loading', 'material'):
        for first in range(len(HIST_TARGETS[q])):
            for lb in (('molar',) if q == 'pressure' else ('molar', 'fraction') if q == 'material' else ('molar',)):
                obs.append(Obligation(f'C02/history3/{q}/{lb}/{first}', h_history3, (q, first, lb),
                                      bounds=f'k=3; all {len(HIST_TARGETS[q])}^2 continuations of this first step on one object', **kw))
    for i in range(5):
        obs.append(Obligation(f'C02/backend-fails/{i}', h_backend_fails, (i,), bounds='backend raises on every call, no user properties', **kw))
    for i in range(2):
        obs.append(Obligation(f'C02/base/{i}', h_base_case, (i,), bounds='constructor', **kw))
    return obs
