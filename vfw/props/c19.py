"""C19 - enthalpy methods: isosteric (Clausius-Clapeyron), Whittaker closed form, initial enthalpy point."""
import fractions
import itertools

import numpy

from ..core import Obligation
from .. import symx, stubs, isofix
from .c10 import get_model
from .c14 import LinregressStub

F = fractions.Fraction
R_GAS = 8.314462618
ASSUMPTIONS = [
    'isosteric: linregress contract stub (exact-line lemma); pressures p_ij = exp(a_i - Q/(R T_j)) encoded through exp/ln pairs; '
    'm = 2..4 temperatures in any order, k = 2 loadings',
    'isosteric wiring: isotherms replaced by recorders (what each isotherm is asked for, in which units, in which order)',
    'Whittaker: real ModelIsotherm (Langmuir fully symbolic; Toth exponent from {1/2, 2}) with FakeState adsorbate '
    '(saturation / critical / triple pressures and h_liq, h_vap unknown functions); CoolProp.PropsSI stubbed for p_triple',
    'real arithmetic; gas constant 8.314462618 (1e-8)',
]
FUNCS = ['pygaps.characterisation.isosteric_enth:isosteric_enthalpy_raw', 'pygaps.characterisation.isosteric_enth:isosteric_enthalpy',
         'pygaps.characterisation.enth_sorp_whittaker:enthalpy_sorption_whittaker',
         'pygaps.characterisation.initial_enth:initial_enthalpy_point', 'pygaps.core.adsorbate:Adsorbate.enthalpy_liquefaction']


def h_isosteric_raw(h, m, order):
    import pygaps.characterisation.isosteric_enth as ie
    from scipy import stats
    k = 2
    Ts = isofix.increasing(h, [f'T{j}' for j in range(m)])
    Ts = [Ts[j] for j in order]
    Q = h.real('Q_heat', pos=True)
    a = [h.real(f'a{i}') for i in range(k)]
    # ln p_ij = a_i - Q / (R T_j);  p_ij = exp(ln p_ij)
    lnp = [[a[i] - Q / (R_GAS * Ts[j]) for j in range(m)] for i in range(k)]
    ps = [[(v.exp() if h.sym else float(numpy.exp(v))) for v in row] for row in lnp]
    lr = LinregressStub(h, exact=True)
    dt = object if h.sym else float
    P = numpy.empty((k, m), dtype=dt)
    for i in range(k):
        for j in range(m):
            P[i, j] = ps[i][j]
    if h.sym:
        P = P.view(symx.SymArray)
    with stubs.patched((stats, 'linregress', lr)):
        enth, slopes, corr, errs = ie.isosteric_enthalpy_raw(P, isofix.column(h, Ts))
    cid = f'C19/isosteric-raw/m={m}/order={"".join(map(str, order))}'
    h.claim(f'{cid}/one-enthalpy-per-loading', len(enth) == k)
    if len(enth) != k:
        return
    # the result claim does not depend on HOW the slope is obtained (through the regression stub under the exact-line
    # lemma, or by any other exact formula)
    okr = True
    for i in range(k):
        okr = okr & h.close(enth[i], Q / 1000, 1e-7)
    h.claim(f'{cid}/returns-the-built-in-enthalpy-in-kJ', okr)
    if len(lr.calls) != k:
        return          # no (or another number of) regressions: nothing to say about the wiring
    ok = True
    for i in range(k):
        xs, ys, slope, icpt, r = lr.calls[i]
        for j in range(m):
            ok = ok & h.close(xs[j], 1 / Ts[j], 1e-12) & h.close(ys[j], lnp[i][j], 1e-12)
    h.claim(f'{cid}/regression-gets-(1/T_j, ln p_ij)', ok)
    oks = True
    for i in range(k):
        oks = oks & h.close(enth[i], -R_GAS * lr.calls[i][2] / 1000, 1e-8) & h.eq(slopes[i], lr.calls[i][2])
    h.claim(f'{cid}/enthalpy==-R*slope/1000', oks)


class RecIso:
    """isotherm recorder for the wiring obligations"""

    def __init__(self, h, i, T, units, material='M1'):
        self.h, self.i, self._T = h, i, T
        for k, v in units.items():
            setattr(self, k, v)
        self.material = material
        self.calls = []

    @property
    def temperature(self):
        return self._T

    @property
    def units(self):
        return {}

    def loading(self, **kw):
        self.calls.append(('loading', kw))
        return numpy.array([1.0, 5.0])

    def pressure_at(self, loading, **kw):
        self.calls.append(('pressure_at', list(numpy.asarray(loading, dtype=object).ravel()), kw))
        out = numpy.empty(len(loading), dtype=object if self.h.sym else float)
        for j in range(len(loading)):
            out[j] = self.h.real(f'P_{self.i}_{j}', pos=True)
        return out


def h_isosteric_wiring(h, m):
    import pygaps.characterisation.isosteric_enth as ie
    units = dict(loading_basis='molar', loading_unit='mmol', material_basis='mass', material_unit='g', pressure_mode='absolute', pressure_unit='bar')
    Ts = [h.real(f'T{j}', pos=True) for j in range(m)]
    isos = [RecIso(h, j, Ts[j], dict(units, loading_unit='mmol' if j == 0 else 'mol', material_unit='g' if j == 0 else 'kg', pressure_unit='bar' if j == 0 else 'kPa'))
            for j in range(m)]
    rec = {}

    def raw(pressures, temperatures):
        rec['P'] = numpy.asarray(pressures, dtype=object)
        rec['T'] = list(temperatures)
        return ([0] * len(rec['P']), [0] * len(rec['P']), [0] * len(rec['P']), [0] * len(rec['P']))

    l0 = h.real('l0', pos=True)
    l1 = h.real('l1', pos=True)
    with stubs.patched((ie, 'isosteric_enthalpy_raw', raw)):
        res = ie.isosteric_enthalpy(isos, loading_points=isofix.column(h, [l0, l1]), branch='des')
    cid = f'C19/isosteric-wiring/m={m}'
    ok = True
    for j, iso in enumerate(isos):
        pa = [c for c in iso.calls if c[0] == 'pressure_at']
        ok = ok and len(pa) == 1 and pa[0][2] == dict(branch='des', loading_unit='mmol', material_unit='g', pressure_mode='absolute', pressure_unit='bar')
        ok = ok and h.eq(pa[0][1][0], l0) & h.eq(pa[0][1][1], l1)
    h.claim(f'{cid}/every-isotherm-asked-at-the-same-loadings-in-the-first-isotherms-loading,material-and-pressure-units', ok)
    okt = len(rec['T']) == m
    for j in range(m):
        okt = okt and h.eq(rec['T'][j], Ts[j])
    h.claim(f'{cid}/temperatures-in-isotherm-order', okt)
    okp = rec['P'].shape == (2, m)
    if okp:
        for i in range(2):
            for j in range(m):
                okp = okp & h.eq(rec['P'][i, j], h.real(f'P_{j}_{i}'))
    h.claim(f'{cid}/pressure-matrix[loading,isotherm]', okp)


def h_whittaker(h, name, t):
    import pygaps.characterisation.enth_sorp_whittaker as ew
    from pygaps.utilities.coolprop_utilities import CP
    T, ads = isofix.sym_env(h)
    m = get_model(name)
    nm = h.real('n_m', pos=True)
    K = h.real('K', pos=True)
    m.params = {'n_m': nm, 'K': K}
    if name == 'Toth':
        m.params['t'] = t if h.sym else float(t)
    m.pressure_range = (0.0, 1.0)
    m.loading_range = (0.0, 1.0)
    iso = isofix.model_iso(h, m, units=dict(pressure_mode='absolute', pressure_unit='Pa'), ads=ads, T=T)
    ptrip = h.real('p_triple', pos=True)
    ns = [h.real('n0', pos=True), h.real('n1', pos=True)]
    for n in ns:
        h.assume(n < nm)
    with stubs.patched((CP.CoolProp, 'PropsSI', lambda what, name_: ptrip)):
        res = ew.enthalpy_sorption_whittaker(iso, loading=list(ns))
    pc = ads._state.p_critical()
    psat = h.fun('psat_f', T)
    cid = f'C19/whittaker/{name}[{t}]'
    kept = list(res['loading'])
    out = list(res['enthalpy_sorption'])
    tt = 1 if name == 'Langmuir' else (t if h.sym else float(t))
    j = 0
    for i, n in enumerate(ns):
        p = m.pressure(n)
        excluded = (p < 0) | (p > pc) | (p > psat)
        is_kept = j < len(kept) and (kept[j] is n or (not h.sym and kept[j] == n))
        h.claim(f'{cid}/loading{i}/omitted-iff-pressure-outside-the-vaporisation-range',
                (excluded if not is_kept else ~excluded) if not isinstance(excluded, bool) else (excluded != is_kept))
        if not is_kept:
            continue
        pstar = p if (p >= ptrip) else ptrip
        hvap = (h.fun('hmolar_pq_f', 1.0, pstar) - h.fun('hmolar_pq_f', 0.0, pstar))
        theta_t = (n / nm) ** tt
        arg = psat * K * (theta_t / (1 - theta_t)) ** ((tt - 1) / tt if tt != 1 else 0)
        lam = R_GAS * T * (arg.log() if h.sym else float(numpy.log(arg)))
        want = (lam + hvap + R_GAS * T) / 1000
        scale = (abs(lam) + abs(hvap) + R_GAS * T) / 1000       # the three terms may cancel: tolerance relative to their size
        h.claim(f'{cid}/loading{i}/value==lambda+dh_vap+RT', h.close(out[j], want, 0.0, 1e-7 * scale))
        j += 1
    h.claim(f'{cid}/nothing-else-returned', j == len(kept))


def h_initial_point(h, branch, marks):
    import pygaps.characterisation.initial_enth as ini
    from . import c02
    env = c02.Env(h, k=3)
    iso = env.make(dict(isofix.DEFAULT_UNITS))
    iso.data_raw['branch'] = list(marks)
    # loadings in no particular order (a desorption branch starts at its highest loading)
    iso.data_raw['loading'] = isofix.column(h, [h.real(f'load{i}', pos=True) for i in range(3)])
    want = None
    for i in range(3):
        if marks[i] == (0 if branch == 'ads' else 1):
            want = env.extra_num[i]
            break
    try:
        res = ini.initial_enthalpy_point(iso, 'enthalpy', branch=branch)
        got = res['initial_enthalpy']
        err = None
    except Exception as e:      # noqa: BLE001
        got, err = None, e
    cid = f'C19/initial-point/{branch}/{marks}'
    if want is None:
        h.claim(f'{cid}/empty-branch-is-refused', err is not None)
    else:
        h.claim(f'{cid}/first-measured-enthalpy-of-the-branch', err is None and h.eq(got, want), info=repr(err))


def obligations(tier):
    obs = []
    kw = dict(funcs=FUNCS, timeout_s=60 if tier == 'quick' else 600, validate=1)
    for m in ((2, 3) if tier == 'quick' else (2, 3, 4)):
        orders = list(itertools.permutations(range(m)))
        if tier == 'quick':
            orders = orders[:1] + orders[-1:] + (orders[2:3] if m == 3 else [])
        for order in orders:
            obs.append(Obligation(f'C19/isosteric-raw/m={m}/{"".join(map(str, order))}', h_isosteric_raw, (m, order),
                                  stubs=['linregress contract stub'], bounds=f'm={m} temperatures, k=2 loadings', **kw))
        obs.append(Obligation(f'C19/isosteric-wiring/m={m}', h_isosteric_wiring, (m,), stubs=['isotherm recorders'], bounds=f'm={m}', **kw))
    obs.append(Obligation('C19/whittaker/Langmuir', h_whittaker, ('Langmuir', None), stubs=['FakeState', 'PropsSI stub'], bounds='2 loadings', **kw))
    for t in ((F(2),) if tier == 'quick' else (F(1, 2), F(2), F(3))):
        obs.append(Obligation(f'C19/whittaker/Toth[{t}]', h_whittaker, ('Toth', t), stubs=['FakeState', 'PropsSI stub'], bounds=f't={t}; 2 loadings', **kw))
    for branch in ('ads', 'des'):
        for marks in [(0, 0, 1), (1, 0, 0), (0, 1, 1), (0, 0, 0), (1, 1, 1)]:
            obs.append(Obligation(f'C19/initial-point/{branch}/{marks}', h_initial_point, (branch, marks), bounds='k=3', **kw))
    return obs
