"""C13 - IAST results satisfy the IAST equations and the known closed forms."""
import itertools

import numpy

from ..core import Obligation
from .. import symx, stubs, isofix
from .c10 import get_model

ASSUMPTIONS = [
    'scipy.optimize.root replaced by a contract stub: on success it returns arbitrary reals x with the residual vector handed over '
    'equal to 0 (convergence of Levenberg-Marquardt is not claimed); it may instead report failure',
    'numpy.zeros inside pygaps.iast.pgiast returns an object array in symbolic mode (documented stub)',
    'component isotherms: duck-typed stubs with unknown spreading-pressure and loading functions (one fresh real per distinct '
    'argument), and real ModelIsotherms with Henry / Langmuir models and symbolic parameters; n = 2, 3 (thorough: 4) components',
    'real arithmetic; ln uninterpreted with injectivity axioms (used for the Langmuir closed form)',
]
FUNCS = ['pygaps.iast.pgiast:iast_point', 'pygaps.iast.pgiast:reverse_iast', 'pygaps.iast.pgiast:iast_point_fraction',
         'pygaps.iast.pgiast:iast_binary_svp', 'pygaps.iast.pgiast:iast_binary_vle',
         'pygaps.core.modelisotherm:ModelIsotherm.spreading_pressure_at', 'pygaps.core.modelisotherm:ModelIsotherm.loading_at']


class StubIso:
    """pure-component isotherm with unknown pi(p) and n(p) > 0"""
    pressure_mode = 'absolute'
    pressure_unit = 'bar'
    adsorbate = 'stub'

    def __init__(self, h, i):
        self.h = h
        self.i = i

    def spreading_pressure_at(self, p, branch='ads', **kw):
        return self.h.fun(f'pi_{self.i}', p)

    def loading_at(self, p, **kw):
        v = self.h.fun(f'n_{self.i}', p)
        self.h.assume(v > 0)
        return v

    def pressure(self, branch=None, **kw):
        return numpy.array([1e30])


def obj_zeros(shape, *a, **k):
    return numpy.full(shape, 0, dtype=object)


def patches(h, root):
    import pygaps.iast.pgiast as pg
    from scipy import optimize
    ps = [(optimize, 'root', root)]
    if h.sym:
        ps.append((numpy, 'zeros', obj_zeros))
    return stubs.patched(*ps)


def col(h, vals):
    return isofix.column(h, vals)


def h_point_equations(h, n, guess_mode):
    """iast_point with stub isotherms: residual wiring, IAST equations on every returning path, refusals"""
    import pygaps.iast.pgiast as pg
    from pygaps.utilities.exceptions import CalculationError
    isos = [StubIso(h, i) for i in range(n)]
    pp = [h.real(f'pp{i}', pos=True) for i in range(n)]
    if not h.sym:
        pp = [numpy.float64(v) for v in pp]
    root = stubs.RootStub(h, 'root')
    guess = None
    if guess_mode == 'user':
        guess = [1.0 / n] * n
    with patches(h, root):
        try:
            load = pg.iast_point(isos, col(h, pp), warningoff=True, adsorbed_mole_fraction_guess=guess)
            err = None
        except CalculationError as e:
            load, err = None, e
    cid = f'C13/point/n={n}/{guess_mode}'
    if not root.calls:
        # a result produced without consulting the solver must still satisfy the IAST equations
        if err is not None:
            h.claim(f'{cid}/refused-without-consulting-the-solver(no claim)', True, info=str(err)[:80])
            return
        load = [numpy.float64(v) for v in load] if not h.sym else list(load)
        tot = sum(load[1:], load[0])
        xs = [v / tot for v in load]
        ok = True
        for i in range(n - 1):
            ok = ok & h.eq(h.fun(f'pi_{i}', pp[i] / xs[i]), h.fun(f'pi_{i + 1}', pp[i + 1] / xs[i + 1]))
        h.claim(f'{cid}/equal-spreading-pressures', ok, info='result returned without a solver call')
        return
    call = root.calls[0]
    x0 = list(numpy.asarray(call.x0, dtype=object))
    h.claim(f'{cid}/n-1-unknowns,method=lm', len(x0) == n - 1 and call.method == 'lm')
    if guess_mode == 'default':
        # default guess: pure-component loadings at the partial pressures, normalised
        ng = [h.fun(f'n_{i}', pp[i]) for i in range(n)]
        tot = sum(ng[1:], ng[0])
        ok = True
        for i in range(n - 1):
            ok = ok & h.close(x0[i], ng[i] / tot, 1e-12)
        h.claim(f'{cid}/default-guess==normalised-pure-loadings', ok)
    # residual wiring on fresh fractions z
    z = [h.real(f'z{i}', pos=True) for i in range(n - 1)]
    zlast = 1.0 - sum(z[1:], z[0])
    h.assume(zlast > 0)
    zall = z + [zlast]
    with patches(h, root):
        resid = call.fun(col(h, z))
    ok = True
    for i in range(n - 1):
        want = h.fun(f'pi_{i}', pp[i] / zall[i]) - h.fun(f'pi_{i + 1}', pp[i + 1] / zall[i + 1])
        ok = ok & h.eq(resid[i], want)
    h.claim(f'{cid}/residual==spreading-pressure-differences', ok)
    succeeded = call.__dict__.get('x') is not None
    if not succeeded:
        h.claim(f'{cid}/solver-failure=>CalculationError', err is not None)
        return
    x = list(numpy.asarray(call.x, dtype=object))
    if not h.sym:
        x = [numpy.float64(v) for v in x]          # numpy semantics for x = 0 (inf, not ZeroDivisionError)
    xs = x + [1.0 - sum(x[1:], x[0])]
    outside = False
    for v in xs:
        outside = outside | (v < 0) | (v > 1)
        h.prefer((v > 0.05) & (v < 0.95)) if h.sym else None
    if err is not None:
        h.claim(f'{cid}/refused-only-for-fractions-outside-[0,1]', outside, info=str(err)[:80])
        return
    h.claim(f'{cid}/returned=>fractions-in-[0,1]', ~outside if not isinstance(outside, bool) else (not outside))
    load = list(load)
    tot = sum(load[1:], load[0])
    # ideal mixing rule and loadings = x_i n_t
    inv = 0
    for i in range(n):
        inv = inv + xs[i] / h.fun(f'n_{i}', pp[i] / xs[i])
    h.claim(f'{cid}/ideal-mixing:1/n_t==sum(x_i/n_i0)', h.close(tot * inv, 1.0, 1e-9))
    ok = True
    for i in range(n):
        ok = ok & h.close(load[i], xs[i] * tot, 1e-9)
    h.claim(f'{cid}/loadings==x_i*n_t(fractions-sum-to-one)', ok)
    # equal spreading pressures at the fictitious pressures (from the solver contract + wiring)
    ok = True
    for i in range(n - 1):
        ok = ok & h.eq(h.fun(f'pi_{i}', pp[i] / xs[i]), h.fun(f'pi_{i + 1}', pp[i + 1] / xs[i + 1]))
    h.claim(f'{cid}/equal-spreading-pressures', ok)


def model_isos(h, name, n, equal_capacity=True):
    T, ads = isofix.sym_env(h)
    isos = []
    params = []
    nm = h.real('nm', pos=True)
    for i in range(n):
        m = get_model(name)
        K = h.real(f'K{i}', pos=True)
        if name == 'Henry':
            m.params = {'K': K}
        else:
            m.params = {'K': K, 'n_m': nm if equal_capacity else h.real(f'nm{i}', pos=True)}
        m.pressure_range = (0.0, 1e30)
        m.loading_range = (0.0, 1e30)
        params.append(K)
        isos.append(isofix.model_iso(h, m, ads=ads, T=T))
    return isos, params, nm


def h_closed_form(h, name, n, order):
    """Henry: n_i = K_i p_i.  Equal-capacity Langmuir: n_i = M K_i p_i / (1 + sum K_j p_j).  Any component order."""
    import pygaps.iast.pgiast as pg
    from pygaps.utilities.exceptions import CalculationError
    isos, Ks, nm = model_isos(h, name, n)
    pp = [h.real(f'pp{i}', pos=True) for i in range(n)]
    perm = list(order)
    root = stubs.RootStub(h, 'root', may_fail=False)
    with patches(h, root):
        try:
            load = pg.iast_point([isos[i] for i in perm], col(h, [pp[i] for i in perm]), warningoff=True)
            err = None
        except CalculationError as e:
            load, err = None, e
    cid = f'C13/closed-form/{name}/n={n}/order={"".join(map(str, perm))}'
    if root.calls:
        x = list(numpy.asarray(root.calls[0].x, dtype=object))
        xs = x + [1.0 - sum(x[1:], x[0])]
        if err is not None:
            outside = False
            for v in xs:
                outside = outside | (v < 0) | (v > 1)
            h.claim(f'{cid}/refused-only-for-fractions-outside-[0,1]', outside)
            return
    elif err is not None:
        h.claim(f'{cid}/refused-without-consulting-the-solver(no claim)', True, info=str(err)[:80])
        return
    # (a result produced without consulting the solver must satisfy the closed form all the same)
    load = list(load)
    ok = True
    den = 1
    for j in range(n):
        den = den + Ks[j] * pp[j]
    for pos, i in enumerate(perm):
        want = Ks[i] * pp[i] if name == 'Henry' else nm * Ks[i] * pp[i] / den
        ok = ok & h.close(load[pos], want, 1e-9)
    h.claim(f'{cid}/loadings==closed-form(in-the-order-given)', ok)


def h_wrappers(h, which):
    """fraction / selectivity / VLE helpers return exactly what the point calculation gives"""
    import pygaps.iast.pgiast as pg
    isos = [StubIso(h, 0), StubIso(h, 1)]
    P = h.real('P', pos=True)
    y0 = h.real('y0', pos=True)
    h.assume(y0 < 1)
    rec = []

    def fake_point(isotherms, partial_pressures, branch='ads', verbose=False, warningoff=False, adsorbed_mole_fraction_guess=None):
        k = len(rec)
        rec.append(dict(pp=list(numpy.asarray(partial_pressures, dtype=object if h.sym else float)), branch=branch,
                        guess=adsorbed_mole_fraction_guess, isos=isotherms))
        out = numpy.array([h.real(f'L{k}_0', pos=True), h.real(f'L{k}_1', pos=True)], dtype=object if h.sym else float)
        return out

    cid = f'C13/wrappers/{which}'
    ps = [(pg, 'iast_point', fake_point)]
    if h.sym:
        ps.append((numpy, 'zeros', obj_zeros))
    with stubs.patched(*ps):
        if which == 'fraction':
            out = pg.iast_point_fraction(isos, col(h, [y0, 1 - y0]), P, branch='des', adsorbed_mole_fraction_guess=[0.3, 0.7])
            h.claim(f'{cid}/partial-pressures==y_i*P', h.eq(rec[0]['pp'][0], y0 * P) & h.eq(rec[0]['pp'][1], (1 - y0) * P))
            h.claim(f'{cid}/arguments-passed-through', rec[0]['branch'] == 'des' and rec[0]['guess'] == [0.3, 0.7]
                    and rec[0]['isos'][0] is isos[0] and rec[0]['isos'][1] is isos[1])
            h.claim(f'{cid}/returns-point-result', h.eq(out[0], h.real('L0_0')) & h.eq(out[1], h.real('L0_1')))
        elif which == 'svp':
            P2 = h.real('P2', pos=True)
            fr = [0.25, 0.75]
            res = pg.iast_binary_svp(isos, fr, col(h, [P, P2]), warningoff=True)
            ok = len(rec) == 2
            ok = ok and h.eq(rec[0]['pp'][0], P * 0.25) & h.eq(rec[0]['pp'][1], P * 0.75) & h.eq(rec[1]['pp'][0], P2 * 0.25) \
                & h.eq(rec[1]['pp'][1], P2 * 0.75)
            h.claim(f'{cid}/one-point-calculation-per-pressure-with-y_i*P', ok)
            sel = list(res['selectivity'])
            want0 = (h.real('L0_0') / 0.25) / (h.real('L0_1') / 0.75)
            want1 = (h.real('L1_0') / 0.25) / (h.real('L1_1') / 0.75)
            h.claim(f'{cid}/selectivity==(n1/y1)/(n2/y2)', h.close(sel[0], want0, 1e-12) & h.close(sel[1], want1, 1e-12))
        else:
            res = pg.iast_binary_vle(isos, P, npoints=3, warningoff=True)
            ys = [0.01, 0.5, 0.99]
            ok = len(rec) == 3
            for k in range(3):
                ok = ok and h.close(rec[k]['pp'][0], P * ys[k], 1e-12) & h.close(rec[k]['pp'][1], P * (1 - ys[k]), 1e-12)
            h.claim(f'{cid}/point-calculation-at-y*P', ok)
            xd = list(res['x'])
            okx = len(xd) == 5 and h.eq(xd[0], 0) & h.eq(xd[4], 1)
            for k in range(3):
                okx = okx and h.close(xd[k + 1], h.real(f'L{k}_0') / (h.real(f'L{k}_0') + h.real(f'L{k}_1')), 1e-12)
            h.claim(f'{cid}/x==n1/(n1+n2)', okx)


def h_reverse(h, n):
    """reverse_iast: residual wiring, equations on returning paths"""
    import pygaps.iast.pgiast as pg
    from pygaps.utilities.exceptions import CalculationError
    isos = [StubIso(h, i) for i in range(n)]
    P = h.real('P', pos=True)
    xs = [0.25, 0.75] if n == 2 else [0.25, 0.25, 0.5]
    root = stubs.RootStub(h, 'root')
    with patches(h, root):
        try:
            ys, load = pg.reverse_iast(isos, list(xs), P, warningoff=True)
            err = None
        except CalculationError as e:
            ys, load, err = None, None, e
    call = root.calls[0]
    cid = f'C13/reverse/n={n}'
    z = [h.real(f'z{i}', pos=True) for i in range(n - 1)]
    zall = z + [1.0 - sum(z[1:], z[0])]
    h.assume(zall[-1] > 0)
    with patches(h, root):
        resid = call.fun(col(h, z))
    ok = True
    for i in range(n - 1):
        want = h.fun(f'pi_{i}', P * zall[i] / xs[i]) - h.fun(f'pi_{i + 1}', P * zall[i + 1] / xs[i + 1])
        ok = ok & h.eq(resid[i], want)
    h.claim(f'{cid}/residual==spreading-pressure-differences', ok)
    if call.__dict__.get('x') is None:
        h.claim(f'{cid}/solver-failure=>CalculationError', err is not None)
        return
    y = list(numpy.asarray(call.x, dtype=object))
    if not h.sym:
        y = [numpy.float64(v) for v in y]
    yall = y + [1.0 - sum(y[1:], y[0])]
    for v in yall:
        h.prefer((v > 0.05) & (v < 0.95)) if h.sym else None
    outside = False
    for v in yall:
        outside = outside | (v < 0) | (v > 1)
    if err is not None:
        h.claim(f'{cid}/refused-only-for-fractions-outside-[0,1]', outside)
        return
    load = list(load)
    tot = sum(load[1:], load[0])
    inv = 0
    for i in range(n):
        inv = inv + xs[i] / h.fun(f'n_{i}', P * yall[i] / xs[i])
    h.claim(f'{cid}/ideal-mixing', h.close(tot * inv, 1.0, 1e-9))
    ok = True
    for i in range(n):
        ok = ok & h.close(load[i], xs[i] * tot, 1e-9) & h.close(list(ys)[i], yall[i], 1e-12)
    h.claim(f'{cid}/loadings-have-requested-composition,gas-fractions-returned', ok)
    # forward o reverse: the forward equations at partial pressures P*y_i are satisfied by the requested x
    okf = True
    for i in range(n - 1):
        okf = okf & h.eq(h.fun(f'pi_{i}', (P * yall[i]) / xs[i]), h.fun(f'pi_{i + 1}', (P * yall[i + 1]) / xs[i + 1]))
    h.claim(f'{cid}/forward-equations-hold-at-the-returned-gas-phase', okf)


def h_reverse_input_untouched(h):
    """reverse_iast must not modify the composition the caller passed (default guess aliases it)"""
    import pygaps.iast.pgiast as pg
    from pygaps.utilities.exceptions import CalculationError
    isos = [StubIso(h, i) for i in range(2)]
    P = h.real('P', pos=True)
    xs = numpy.array([0.0004, 0.9996])
    root = stubs.RootStub(h, 'root', may_fail=False)
    with patches(h, root):
        try:
            ys, load = pg.reverse_iast(isos, xs, P, warningoff=True)
            err = None
        except CalculationError as e:
            err = e
    h.claim('C13/reverse/caller-composition-unchanged', float(xs[0]) == 0.0004 and float(xs[1]) == 0.9996, info=str(xs))
    if err is None:
        load = list(load)
        h.claim('C13/reverse/small-fraction/loadings-have-requested-composition',
                h.close(load[0] * 0.9996, load[1] * 0.0004, 1e-9))


def h_int_typed_input(h, kind):
    """integer-typed partial pressures ([1, 2] or an int ndarray) give the same result as the same numbers as floats"""
    import pygaps.iast.pgiast as pg
    isos, Ks, nm = model_isos(h, 'Henry', 2)
    ints = [1, 2] if kind == 'list' else numpy.array([1, 2])
    flts = [1.0, 2.0]
    r1 = stubs.RootStub(h, 'rootA', may_fail=False)
    r2 = stubs.RootStub(h, 'rootB', may_fail=False)
    with patches(h, r1):
        want = list(pg.iast_point(isos, col(h, flts) if h.sym else numpy.array(flts), warningoff=True))
    try:
        with patches(h, r2):
            got = list(pg.iast_point(isos, ints, warningoff=True))
    except symx.Unsupported as e:
        # the symbolic run would need int(<symbolic real>): integer truncation somewhere on the way
        h.claim(f'C13/int-input/{kind}/same-as-float-input', False, info=f'integer truncation of a real quantity: {e}')
        return
    except Exception as e:      # noqa: BLE001
        h.claim(f'C13/int-input/{kind}/same-as-float-input', False, info=repr(e)[:120])
        return
    ok = h.close(got[0], Ks[0] * 1, 1e-9) & h.close(got[1], Ks[1] * 2, 1e-9) & h.close(want[0], Ks[0] * 1, 1e-9)
    h.claim(f'C13/int-input/{kind}/same-as-float-input', ok)


def obligations(tier):
    obs = []
    kw = dict(funcs=FUNCS, stubs=['optimize.root contract stub', 'numpy.zeros -> object array'], timeout_s=60 if tier == 'quick' else 600,
              validate=1)
    ns = (2, 3) if tier == 'quick' else (2, 3, 4)
    for n in ns:
        for g in ('default', 'user'):
            obs.append(Obligation(f'C13/point/n={n}/{g}', h_point_equations, (n, g), bounds=f'n={n} components', **kw))
        obs.append(Obligation(f'C13/reverse/n={n}', h_reverse, (n,), bounds=f'n={n} components', **kw)) if n <= 3 else None
    for name in ('Henry', 'Langmuir'):
        for n in (2, 3):
            if name == 'Langmuir' and n == 3 and tier == 'quick':
                continue        # unknown within 60 s (three logarithm equalities + rational closed form); thorough tier
            for order in itertools.permutations(range(n)):
                obs.append(Obligation(f'C13/closed-form/{name}/n={n}/{"".join(map(str, order))}', h_closed_form, (name, n, order),
                                      bounds=f'n={n}; every component order; all argsort orders of the default guess', **kw))
    for w in ('fraction', 'svp', 'vle'):
        obs.append(Obligation(f'C13/wrappers/{w}', h_wrappers, (w,), bounds='binary', **kw))
    for kind in ('list', 'ndarray'):
        obs.append(Obligation(f'C13/int-input/{kind}', h_int_typed_input, (kind,), bounds='binary Henry mixture, p = (1, 2)', **kw))
    obs.append(Obligation('C13/reverse/input-untouched', h_reverse_input_untouched, (), bounds='binary; x = (0.0004, 0.9996)', **kw))
    return [o for o in obs if o is not None]
