"""C10 - model equations: inverse, zero point, sign, monotone, bounded, Henry limit."""
import fractions
import math

import numpy

from ..core import Obligation
from .. import symx, stubs

F = fractions.Fraction

ASSUMPTIONS = [
    'real arithmetic (no float rounding); parameters strictly inside param_default_bounds read from the class at run time',
    'exponents of Toth / DA / Jensen-Seaton restricted to a finite rational set (stated in bounds)',
    'scipy.optimize.root / minimize replaced by a contract stub: success => residual handed over is exactly 0 at the returned '
    'point, which lies in the model domain (p >= 0, 0 <= n < n_m); failure is reported as success=False',
    'exp/ln are uninterpreted, tied by ground monotonicity/injectivity axioms (+ product/quotient closure)',
]

MODEL_FILES = lambda name: [f'pygaps.modelling.{name.lower()}:{name}.loading', f'pygaps.modelling.{name.lower()}:{name}.pressure']


def get_model(name):
    import pygaps.modelling as pgm
    return pgm.get_isotherm_model(name)


def sym_params(h, model, fixed=None, positive_unbounded=False):
    """Symbolic parameters strictly inside the model's declared bounds."""
    fixed = fixed or {}
    params = {}
    names = model.param_names if not isinstance(model.param_names, str) else (model.param_names,)
    for n, (lo, hi) in zip(names, model.param_default_bounds):
        if n in fixed:
            v = fixed[n]
            params[n] = v if h.sym else float(v)
            continue
        v = h.real(f'par_{n}')
        if not math.isinf(lo):
            h.assume(v > lo)
        if not math.isinf(hi):
            h.assume(v < hi)
        params[n] = v
    model.params = params
    return params


# exponent sets (bounded; everything else symbolic)
def exps(tier, name):
    if name == 'Toth':
        return [F(1, 2), F(1), F(2)] if tier == 'quick' else [F(1, 3), F(1, 2), F(1), F(2), F(3)]   # (3/2: inverse identity undecided within 20 min)
    if name == 'DA':
        return [F(3, 2), F(2)] if tier == 'quick' else [F(3, 2), F(2), F(5, 2)]
    if name == 'JensenSeaton':
        return [F(1), F(2)] if tier == 'quick' else [F(1, 2), F(1), F(2), F(3)]
    return [None]


EXP_PARAM = {'Toth': 't', 'DA': 'm', 'JensenSeaton': 'c'}


def domain(h, name, m, p=None, n=None):
    """validity range of the model (the property's quantifier), as assumptions"""
    P = m.params
    if name in ('DR', 'DA') and h.sym:
        h.prefer((P['e'] > 2000) & (P['e'] < 20000))
        if p is not None:
            h.prefer((p > symx.realval(0.05)))
    if p is not None:
        h.assume(p > 0)
        if name == 'BET':
            h.assume(P['N'] * p < 1)
        if name == 'GAB':
            h.assume(P['K'] * p < 1)
        if name in ('DR', 'DA'):
            h.assume(p < 1)
        if name == 'Quadratic':
            h.assume(P['Ka'] > 0)
            h.assume(P['Kb'] > 0)
        if name == 'TemkinApprox':
            h.assume(P['tht'] <= 3)
    if n is not None:
        h.assume(n > 0)
        cap = capacity(name, m)
        if cap is not None:
            h.assume(n < cap)
        if name == 'Quadratic':
            h.assume(P['Ka'] > 0)
            h.assume(P['Kb'] > 0)


def capacity(name, m):
    P = m.params
    if name in ('Langmuir', 'Toth', 'DR', 'DA', 'TemkinApprox', 'FHVST', 'WVST'):
        return P['n_m']
    if name == 'DSLangmuir':
        return P['n_m1'] + P['n_m2']
    if name == 'TSLangmuir':
        return P['n_m1'] + P['n_m2'] + P['n_m3']
    if name == 'Quadratic':
        return 2 * P['n_m']
    if name == 'JensenSeaton':
        return None
    return None


def regions(name, m):
    P = m.params
    if name == 'BET':
        return {'C==N': P['C'] == P['N']}
    if name == 'GAB':
        return {'C==1': P['C'] == 1}
    return {}


CLOSED = ['Henry', 'Langmuir', 'DSLangmuir', 'BET', 'GAB', 'Quadratic', 'Freundlich', 'DR', 'DA', 'Toth']
NUMERIC_P = ['TSLangmuir', 'TemkinApprox', 'JensenSeaton']     # loading explicit, pressure by root
NUMERIC_L = ['FHVST', 'WVST', 'Virial']                        # pressure explicit, loading numeric


def h_inverse_pl(h, name, e):
    """pressure(loading(p)) == p"""
    m = get_model(name)
    fixed = {EXP_PARAM[name]: e} if e is not None else None
    sym_params(h, m, fixed)
    p = h.real('p')
    domain(h, name, m, p=p)
    n = m.loading(p)
    back = m.pressure(n)
    h.claim(f'C10/inverse/{name}/pressure(loading(p))', h.isnum(back) and h.close(back, p, 1e-9),
            regions(name, m), info=f'{name} exponent={e}')
    # 0-d array input gives the same value as the scalar
    if h.sym:
        a0 = numpy.empty((), dtype=object)
        a0[()] = p
    else:
        a0 = numpy.array(p)
    n0 = m.loading(a0)
    n0 = n0.item() if isinstance(n0, numpy.ndarray) else n0
    h.claim(f'C10/shape/{name}/loading(0-d)==loading(scalar)', h.eq(n0, n))


def h_inverse_lp(h, name, e):
    """loading(pressure(n)) == n"""
    m = get_model(name)
    fixed = {EXP_PARAM[name]: e} if e is not None else None
    sym_params(h, m, fixed)
    n = h.real('n')
    domain(h, name, m, n=n)
    p = m.pressure(n)
    h.claim(f'C10/inverse/{name}/pressure(n)>=0', h.isnum(p) and (p >= 0), regions(name, m))
    if not h.isnum(p):
        return
    back = m.loading(p)
    h.claim(f'C10/inverse/{name}/loading(pressure(n))', h.isnum(back) and h.close(back, n, 1e-9),
            regions(name, m), info=f'{name} exponent={e}')


def h_shape(h, name, e):
    """zero point, non-negativity, monotone (two-point), capacity bound"""
    m = get_model(name)
    fixed = {EXP_PARAM[name]: e} if e is not None else None
    sym_params(h, m, fixed)
    p = h.real('p')
    q = h.real('q')
    domain(h, name, m, p=p)
    domain(h, name, m, p=q)
    h.assume(p < q)
    np_ = m.loading(p)
    nq = m.loading(q)
    h.claim(f'C10/sign/{name}/loading>=0', np_ >= 0)
    h.claim(f'C10/monotone/{name}/p<q=>n(p)<=n(q)', np_ <= nq)
    cap = capacity(name, m)
    if cap is not None and name not in ('BET', 'GAB'):
        h.claim(f'C10/bounded/{name}/loading<=capacity', np_ <= cap)
    if name not in ('DR', 'DA', 'Freundlich'):
        z = m.loading(0.0 if not h.sym else symx.SymReal(symx.realval(0)))
        h.claim(f'C10/zero/{name}/loading(0)==0', h.eq(z, 0.0))
    if name in ('Langmuir', 'DSLangmuir', 'BET', 'GAB', 'Quadratic', 'Henry', 'Toth'):
        z = m.pressure(0.0 if not h.sym else symx.SymReal(symx.realval(0)))
        h.claim(f'C10/zero/{name}/pressure(0)==0', h.eq(z, 0.0), regions(name, m))


HENRY = {
    'Henry': lambda P: P['K'],
    'Langmuir': lambda P: P['K'] * P['n_m'],
    'DSLangmuir': lambda P: P['K1'] * P['n_m1'] + P['K2'] * P['n_m2'],
    'TSLangmuir': lambda P: P['K1'] * P['n_m1'] + P['K2'] * P['n_m2'] + P['K3'] * P['n_m3'],
    'BET': lambda P: P['n_m'] * P['C'],
    'GAB': lambda P: P['n_m'] * P['C'] * P['K'],
    'Quadratic': lambda P: P['n_m'] * P['Ka'],
    'TemkinApprox': lambda P: P['n_m'] * P['K'],
    'Toth': lambda P: P['n_m'] * P['K'],
    'JensenSeaton': lambda P: P['K'],
}


def h_henry(h, name, e):
    """Henry limit.  For the models that are differentiable at p = 0 (n(0) = 0 is shown in `shape`):
    lim n(p)/p = n'(0), so the claim is  d n/d p |_{p=0} == K_H  with the derivative taken symbolically
    from the term the real loading() built.  Toth / Jensen-Seaton (fractional powers, not differentiable
    at 0 for exponent < 1) use a squeeze  K_H/(1+u)^k <= n(p)/p <= K_H  with u -> 0."""
    import z3
    m = get_model(name)
    fixed = {EXP_PARAM[name]: e} if e is not None else None
    P = sym_params(h, m, fixed)
    p = h.real('p')
    domain(h, name, m, p=p)
    kh = HENRY[name](P)
    if name in ('Toth', 'JensenSeaton'):
        n = m.loading(p)
        ratio = n / p
        if name == 'Toth':
            u = (P['K'] * p) ** P['t']
            k = int(math.ceil(1 / float(P['t'])))
        else:
            u = (P['K'] * p / (P['a'] * (1 + P['b'] * p))) ** P['c']
            k = int(math.ceil(1 / float(P['c'])))
        h.claim(f'C10/henry/{name}', (ratio <= kh) & (ratio * (1 + u) ** k >= kh))
        return
    if h.sym:
        n = m.loading(p)
        st = symx.cur()
        dn = symx.diff(n.t, p.t, st)
        d0 = z3.substitute(dn, (p.t, z3.RealVal(0)))
        h.claim(f'C10/henry/{name}', h.close(symx.SymReal(d0), kh, 1e-6))
    else:
        scale = max(abs(float(v)) for v in P.values()) + 1.0
        eps = 1e-9 / scale
        ratio = float(m.loading(eps)) / eps
        h.claim(f'C10/henry/{name}', abs(ratio - kh) <= 1e-4 * abs(kh), info=f'n(eps)/eps={ratio} K_H={kh}')


def h_numeric_inverse(h, name, e, direction):
    """numerically inverted direction: objective wiring, failure -> CalculationError, injectivity"""
    from scipy import optimize
    from pygaps.utilities.exceptions import CalculationError
    m = get_model(name)
    fixed = {EXP_PARAM[name]: e} if (e is not None and name in EXP_PARAM) else None
    if name == 'WVST' and e is not None:
        fixed = {'L1v': e[0], 'Lv1': e[1]}
    P = sym_params(h, m, fixed)
    x = h.real('x')       # the direct-function argument whose image we invert
    if direction == 'pressure':      # model is loading-explicit; pressure() is numeric
        domain(h, name, m, p=x)
        direct, inverse = m.loading, m.pressure
        dom = lambda v: v >= 0
        if name == 'TemkinApprox':
            pass
    else:                            # model is pressure-explicit; loading() is numeric
        h.assume(x > 0)
        if name in ('FHVST', 'WVST'):
            h.assume(x < P['n_m'])
            dom = lambda v: (v >= 0) & (v < P['n_m'])
        else:
            dom = lambda v: v >= 0
        # monotone parameter region of the defining equation (the property excludes the rest)
        if name == 'FHVST':
            h.assume(P['a1v'] >= 0)
        if name == 'Virial':
            h.assume((P['A'] >= 0) & (P['B'] >= 0) & (P['C'] >= 0))
        if name == 'WVST':
            h.assume((P['L1v'] > 0) & (P['Lv1'] > 0))
        direct, inverse = m.pressure, m.loading
    target = direct(x)
    root = stubs.RootStub(h, 'root', domain=dom)
    with stubs.patched((optimize, 'root', root), (optimize, 'minimize', root)):
        try:
            back = inverse(target)
            raised = None
        except CalculationError as ex:
            raised = ex
    call = root.calls[-1]
    succeeded = call.__dict__.get('x') is not None
    h.claim(f'C10/numeric/{name}/failure-raises-CalculationError', (raised is None) == succeeded)
    # objective wiring on a fresh symbol
    z = h.real('z')
    h.assume(dom(z)) if h.sym else None
    got = call.fun(z)
    want = direct(z) - target
    if name == 'Virial':
        want = want ** 2
    h.claim(f'C10/numeric/{name}/objective==direct(x)-target', h.close(got, want, 1e-9))
    x0 = numpy.asarray(call.x0, dtype=object)
    h.claim(f'C10/numeric/{name}/start-has-input-shape', x0.shape == ())
    # the start vector of a second call does not depend on the first call (no hidden state)
    root2 = stubs.RootStub(h, 'rootB', domain=dom, may_fail=False)
    x2 = h.real('x2')
    h.assume(dom(x2) & (x2 > 0)) if h.sym else None
    with stubs.patched((optimize, 'root', root2), (optimize, 'minimize', root2)):
        t2 = direct(x2)
        inverse(t2)
    first_start, second_start = call.x0, root2.calls[-1].x0
    if name == 'Virial':       # Nelder-Mead is started at the target itself
        h.claim(f'C10/numeric/{name}/start-vector-history-independent', h.close(second_start, t2, 1e-12))
    else:
        h.claim(f'C10/numeric/{name}/start-vector-history-independent',
                h.eq(numpy.asarray(second_start, dtype=object).item(), numpy.asarray(first_start, dtype=object).item()))
    if raised is None:
        # a scalar goes in, a scalar (or 0-d array) comes out
        shape = numpy.shape(back) if not symx.is_sym(back) else ()
        h.claim(f'C10/numeric/{name}/scalar-in-scalar-out', shape == (), info=f'shape {shape}')
        if shape != ():
            return
        back = back.item() if isinstance(back, numpy.ndarray) else back
    if raised is None and name != 'WVST':
        rt = direct(back)
        h.claim(f'C10/numeric/{name}/direct(inverse(y))==y', h.close(rt, target, 1e-9))
    if raised is None and name != 'WVST':
        h.claim(f'C10/numeric/{name}/returned-root-is-the-preimage', h.close(back, x, 1e-9),
                info='injectivity of the direct function on the model domain')


ZERO_OK = ('Henry', 'Langmuir', 'DSLangmuir', 'BET', 'GAB', 'Quadratic', 'Toth')


def h_array(h, name, e):
    """1-d input: elementwise equal to the scalar results, including a zero entry next to non-zero ones"""
    m = get_model(name)
    fixed = {EXP_PARAM[name]: e} if e is not None else None
    sym_params(h, m, fixed)
    p = h.real('p')
    n = h.real('n')
    domain(h, name, m, p=p)
    domain(h, name, m, n=n)
    zero = 0.0
    if h.sym:
        mk = symx.symarray
    else:
        mk = lambda items: numpy.array(items, dtype=float)
    first = zero if name in ZERO_OK else p / 2
    firstn = zero if name in ZERO_OK else n / 2
    with stubs.patched((numpy, 'nan_to_num', symx.nan_to_num_obj)) if h.sym else stubs.patched():
        la = m.loading(mk([first, p]))
        pa = m.pressure(mk([firstn, n]))
        ls = [m.loading(first), m.loading(p)]
        ps = [m.pressure(firstn), m.pressure(n)]
    ok_l = getattr(la, 'shape', None) == (2,)
    ok_p = getattr(pa, 'shape', None) == (2,)
    h.claim(f'C10/array/{name}/loading(1-d)==elementwise', ok_l and h.close(la[0], ls[0], 1e-9) & h.close(la[1], ls[1], 1e-9),
            regions(name, m))
    h.claim(f'C10/array/{name}/pressure(1-d)==elementwise', ok_p and h.close(pa[0], ps[0], 1e-9) & h.close(pa[1], ps[1], 1e-9),
            regions(name, m))
    if name in ZERO_OK:
        h.claim(f'C10/array/{name}/pressure([0,n])[0]==0', ok_p and h.eq(pa[0], 0.0), regions(name, m))
        h.claim(f'C10/array/{name}/loading([0,p])[0]==0', ok_l and h.eq(la[0], 0.0))


def obligations(tier):
    obs = []
    t = 60 if tier == 'quick' else 600
    for name in CLOSED:
        for e in exps(tier, name)[:1 if tier == 'quick' else None]:
            tag = f'{name}' + (f'[{e}]' if e is not None else '')
            obs.append(Obligation(f'C10/array/{tag}', h_array, (name, e), funcs=MODEL_FILES(name), timeout_s=t,
                                  bounds=f'1-d input of length 2 (zero entry + symbolic entry); exponent={e}',
                                  stubs=['numpy.nan_to_num: float semantics re-implemented for object arrays'],
                                  closure=name in ('DR', 'DA', 'Freundlich')))
    for name in CLOSED:
        for e in exps(tier, name):
            tag = f'{name}' + (f'[{e}]' if e is not None else '')
            kw = dict(funcs=MODEL_FILES(name), bounds=f'reals; scalar + 0-d input; exponent={e}', timeout_s=t,
                      closure=name in ('DR', 'DA', 'Freundlich'))
            obs.append(Obligation(f'C10/inverse-pl/{tag}', h_inverse_pl, (name, e), **kw))
            obs.append(Obligation(f'C10/inverse-lp/{tag}', h_inverse_lp, (name, e), **kw))
    for name in ['Henry', 'Langmuir', 'DSLangmuir', 'TSLangmuir', 'BET', 'GAB', 'Quadratic', 'TemkinApprox', 'Toth',
                 'JensenSeaton', 'Freundlich', 'DR', 'DA']:
        for e in exps(tier, name):
            tag = f'{name}' + (f'[{e}]' if e is not None else '')
            obs.append(Obligation(f'C10/shape/{tag}', h_shape, (name, e), funcs=MODEL_FILES(name),
                                  bounds=f'reals; two-point monotonicity; exponent={e}', timeout_s=t,
                                  closure=name in ('DR', 'DA', 'Freundlich')))
    for name in HENRY:
        for e in exps(tier, name):
            tag = f'{name}' + (f'[{e}]' if e is not None else '')
            obs.append(Obligation(f'C10/henry/{tag}', h_henry, (name, e), funcs=MODEL_FILES(name),
                                  bounds=f'reals; squeeze of n(p)/p around K_H linear in p; exponent={e}', timeout_s=t))
    for name in NUMERIC_P:
        for e in exps(tier, name):
            tag = f'{name}' + (f'[{e}]' if e is not None else '')
            obs.append(Obligation(f'C10/numeric/{tag}', h_numeric_inverse, (name, e, 'pressure'), funcs=MODEL_FILES(name),
                                  stubs=['scipy.optimize.root contract stub'], bounds=f'reals; exponent={e}', timeout_s=t))
    for name in NUMERIC_L:
        if name == 'WVST':
            # fully symbolic Wilson parameters make every division fork on a nonlinear feasibility query (3 min);
            # quick tier: Wilson parameters from a stated finite set, everything else symbolic
            sets = [(F(1, 2), F(2)), (F(2), F(1, 2))] if tier == 'quick' else [(F(1, 2), F(2)), (F(2), F(1, 2)), (F(1), F(1)), None]
            for ws in sets:
                obs.append(Obligation(f'C10/numeric/WVST[{ws}]', h_numeric_inverse, (name, ws, 'loading'),
                                      funcs=MODEL_FILES(name), stubs=['scipy.optimize.root contract stub'],
                                      bounds=f'reals; (L1v, Lv1)={ws}', timeout_s=t, closure=True, wall_s=900))
            continue
        obs.append(Obligation(f'C10/numeric/{name}', h_numeric_inverse, (name, None, 'loading'), funcs=MODEL_FILES(name),
                              stubs=['scipy.optimize.root / minimize contract stub'], bounds='reals', timeout_s=t,
                              closure=True))
    return obs
