"""C06 - JSON export and import are exact inverses (numeric dtype effects excluded)."""
import copy
import itertools

import numpy
import pandas

from ..core import Obligation
from .. import symx, stubs, isofix
from . import c01
from .c10 import get_model

ASSUMPTIONS = [
    'json.dumps / json.loads replaced by the identity on JSON values (tuples become lists, dictionary keys become strings, keys '
    'sorted): the stdlib contract; the document is kept as a value so that cells stay symbolic',
    'point data go through the real pandas path (DataFrame.to_dict(orient=index), process_data, DataFrame.from_dict, fillna/replace, '
    'constructor) with k=3 symbolic rows, an extra numeric and an extra text column, all 2^3 user branch assignments',
    'numeric dtype effects (int vs float columns), file targets, unicode escaping and NaN cells are outside the encoding',
]
FUNCS = ['pygaps.parsing.json:isotherm_to_json', 'pygaps.parsing.json:isotherm_from_json', 'pygaps.core.baseisotherm:BaseIsotherm.__init__',
         'pygaps.core.baseisotherm:BaseIsotherm.to_dict', 'pygaps.modelling:model_from_dict', 'pygaps.modelling.base_model:IsothermBaseModel.to_dict',
         'pygaps.modelling.base_model:IsothermBaseModel.__init__']


class FakeJson:
    """stand-in for the json module inside pygaps.parsing.json"""
    docs = {}

    @staticmethod
    def _norm(v):
        if isinstance(v, dict):
            return {str(k): FakeJson._norm(x) for k, x in sorted(v.items(), key=lambda kv: str(kv[0]))}
        if isinstance(v, (list, tuple)):
            return [FakeJson._norm(x) for x in v]
        if isinstance(v, numpy.ndarray):
            raise symx.simulated(TypeError('Object of type ndarray is not JSON serializable'))
        if isinstance(v, (numpy.integer,)):
            raise symx.simulated(TypeError('Object of type int64 is not JSON serializable'))
        if isinstance(v, numpy.floating):
            return float(v)
        if v is None or isinstance(v, (str, bool, int, float)) or symx.is_sym(v):
            return v
        raise symx.simulated(TypeError(f'Object of type {type(v).__name__} is not JSON serializable'))

    @classmethod
    def dumps(cls, obj, **kw):
        token = f'JSONDOC#{len(cls.docs)}'
        cls.docs[token] = cls._norm(obj)
        return token

    @classmethod
    def loads(cls, s, **kw):
        if s not in cls.docs:
            raise symx.simulated(ValueError('not a document'))
        return copy.deepcopy(cls.docs[s]) if not _has_sym(cls.docs[s]) else _copy_json(cls.docs[s])

    @classmethod
    def load(cls, f, **kw):
        raise symx.simulated(OSError('stub'))

    @classmethod
    def dump(cls, obj, f, **kw):
        raise symx.simulated(OSError('stub'))


def _has_sym(v):
    if isinstance(v, dict):
        return any(_has_sym(x) for x in v.values())
    if isinstance(v, list):
        return any(_has_sym(x) for x in v)
    return symx.is_sym(v)


def _copy_json(v):
    if isinstance(v, dict):
        return {k: _copy_json(x) for k, x in v.items()}
    if isinstance(v, list):
        return [_copy_json(x) for x in v]
    return v


def json_patch():
    import pygaps.parsing.json as pj
    FakeJson.docs = {}
    return stubs.patched((pj, 'json', FakeJson))


def same_json(h, a, b):
    """deep equality of two JSON values with symbolic leaves (value and type)"""
    if isinstance(a, dict) or isinstance(b, dict):
        if not (isinstance(a, dict) and isinstance(b, dict)) or list(a.keys()) != list(b.keys()):
            return False
        r = True
        for k in a:
            x = same_json(h, a[k], b[k])
            if x is False:
                return False
            r = r & x
        return r
    if isinstance(a, list) or isinstance(b, list):
        if not (isinstance(a, list) and isinstance(b, list)) or len(a) != len(b):
            return False
        r = True
        for x, y in zip(a, b):
            z = same_json(h, x, y)
            if z is False:
                return False
            r = r & z
        return r
    if symx.is_sym(a) or symx.is_sym(b):
        return h.eq(a, b)
    if isinstance(a, float) and isinstance(b, float) and a != a and b != b:
        return True
    return type(a) is type(b) and a == b


META_VALUES = [
    ('text', 'some text'), ('unicode', 'zeolite β – 5Å'), ('looks-int', '1'), ('looks-float', '1.5e3'), ('looks-bool', 'true'),
    ('looks-none', 'None'), ('empty', ''), ('int', 7), ('neg-int', -3), ('zero', 0), ('bool', True), ('false', False),
    ('list', [1, 2.5, 'x']), ('nested', {'a': 1, 'b': [1, 2]}), ('none', None),
]
META_KEYS = ['user_key', 'iso_type', 'comment', 'key with space', 'branch_note', 'Pressure', 'zz-é']


def label_sets(tier):
    out = []
    for pr in c01.pressure_reps():
        out.append(dict(isofix.DEFAULT_UNITS, pressure_mode=pr[0], pressure_unit=pr[1]))
    for lr in c01.loading_reps():
        out.append(dict(isofix.DEFAULT_UNITS, loading_basis=lr[0], loading_unit=lr[1]))
    for mr in c01.material_reps():
        out.append(dict(isofix.DEFAULT_UNITS, material_basis=mr[0], material_unit=mr[1]))
    out.append(dict(isofix.DEFAULT_UNITS, temperature_unit='°C'))
    out.append(dict(pressure_mode='relative%', pressure_unit=None, loading_basis='percent', loading_unit=None, material_basis='volume',
                    material_unit='cm3', temperature_unit='°C'))
    return out


def h_metadata(h, kind, chunk):
    """Base / Model isotherm: to_dict of the re-imported isotherm equals the original, second export identical"""
    import pygaps.parsing.json as pj
    from pygaps.core.baseisotherm import BaseIsotherm
    from pygaps.core.modelisotherm import ModelIsotherm
    fval = h.real('meta_float')
    labels = label_sets('quick')
    for li in chunk:
        L = labels[li]
        meta = {k: v for k, (_, v) in zip(META_KEYS * 3, META_VALUES)}
        meta = {f'{k}_{i}': v for i, (k, (_, v)) in enumerate(zip(META_KEYS * 3, META_VALUES))}
        meta['measured_value'] = fval
        material = 'mat-A' if li % 2 == 0 else {'name': 'mat-B', 'density': 2.5, 'batch': 'x1', 'porosity': fval}
        with json_patch():
            if kind == 'base':
                iso = BaseIsotherm(material=copy.deepcopy(material) if isinstance(material, dict) else material,
                                   adsorbate='fakegas-placeholder', temperature=303.0, **L, **copy.deepcopy({k: v for k, v in meta.items() if k != 'measured_value'}),
                                   measured_value=fval)
            else:
                m = get_model('Langmuir')
                m.params = {'K': h.real('K', pos=True), 'n_m': h.real('nm', pos=True)}
                iso = ModelIsotherm(model=m, material=copy.deepcopy(material) if isinstance(material, dict) else material,
                                    adsorbate='fakegas-placeholder', temperature=303.0, **L,
                                    **copy.deepcopy({k: v for k, v in meta.items() if k != 'measured_value'}), measured_value=fval)
            d0 = FakeJson._norm(iso.to_dict())
            doc = pj.isotherm_to_json(iso)
            back = pj.isotherm_from_json(doc)
            d1 = FakeJson._norm(back.to_dict())
            doc2 = pj.isotherm_to_json(back)
            cid = f'C06/{kind}/labels{li}'
            h.claim(f'{cid}/same-class', type(back) is type(iso))
            h.claim(f'{cid}/to_dict-equal(keys,values,types,labels,material)', same_json(h, d0, d1),
                    info=str({k: (d0.get(k), d1.get(k)) for k in set(d0) | set(d1) if not symx.is_sym(d0.get(k)) and d0.get(k) != d1.get(k)})[:300])
            h.claim(f'{cid}/second-export-identical', same_json(h, FakeJson.docs[doc], FakeJson.docs[doc2]))
            h.claim(f'{cid}/kelvin-temperature', h.eq(back.temperature, iso.temperature))


def h_model(h, name, rmse_kind):
    """every model class: name, parameters, ranges, rmse survive and the model predicts the same loadings / pressures"""
    import pygaps.parsing.json as pj
    from pygaps.core.modelisotherm import ModelIsotherm
    from .c10 import sym_params, domain
    m = get_model(name)
    P = sym_params(h, m)
    m.pressure_range = (h.real('pr_lo'), h.real('pr_hi'))
    m.loading_range = (h.real('lr_lo'), h.real('lr_hi'))
    m.rmse = {'zero': 0.0, 'concrete': 0.125, 'sym': h.real('rmse', nonneg=True)}[rmse_kind]
    with json_patch():
        iso = ModelIsotherm(model=m, material='mat', adsorbate='fakegas-placeholder', temperature=77.0, **isofix.DEFAULT_UNITS)
        doc = pj.isotherm_to_json(iso)
        back = pj.isotherm_from_json(doc)
        doc2 = pj.isotherm_to_json(back)
    b = back.model
    cid = f'C06/model/{name}/rmse={rmse_kind}'
    h.claim(f'{cid}/model-class', type(b) is type(m) and b.name == m.name)
    ok = set(b.params) == set(m.params)
    r = True
    if ok:
        for k in m.params:
            r = r & h.eq(b.params[k], m.params[k])
    h.claim(f'{cid}/parameters', ok and r)
    h.claim(f'{cid}/ranges', h.eq(b.pressure_range[0], m.pressure_range[0]) & h.eq(b.pressure_range[1], m.pressure_range[1])
            & h.eq(b.loading_range[0], m.loading_range[0]) & h.eq(b.loading_range[1], m.loading_range[1]))
    h.claim(f'{cid}/rmse', h.eq(b.rmse, m.rmse) if not (isinstance(b.rmse, float) and b.rmse != b.rmse) else False, info=f'{b.rmse!r} vs {m.rmse!r}')
    h.claim(f'{cid}/second-export-identical', same_json(h, FakeJson.docs[doc], FakeJson.docs[doc2]))
    if name not in ('TSLangmuir', 'TemkinApprox', 'JensenSeaton', 'Virial', 'FHVST', 'WVST'):
        p = h.real('p', pos=True)
        domain(h, name, m, p=p)
        h.claim(f'{cid}/same-predicted-loading', h.eq(b.loading(p), m.loading(p)))


def h_point(h, marks):
    """point isotherm through the real pandas path"""
    import pygaps.parsing.json as pj
    k = 3
    T, ads = isofix.sym_env(h)
    ps = [h.real(f'p{i}', pos=True) for i in range(k)]
    ns = [h.real(f'n{i}', pos=True) for i in range(k)]
    ex = [h.real(f'e{i}') for i in range(k)]
    notes = ['001', '1e1', '7']
    iso = isofix.point_iso(h, ps, ns, ads=ads, T=300.0, branch=list(marks),
                           extra={'enthalpy': isofix.column(h, ex), 'note': list(notes)}, properties={'user': 'kept'},
                           index=[7, 0, 5])       # row labels are not positions (a filtered / re-ordered table)
    iso._adsorbate = type(ads)('fakegas-placeholder')
    with json_patch():
        doc = pj.isotherm_to_json(iso)
        back = pj.isotherm_from_json(doc)
        doc2 = pj.isotherm_to_json(back)
    cid = f'C06/point/marks={marks}'
    a, b = iso.data_raw, back.data_raw
    h.claim(f'{cid}/columns', sorted(a.columns) == sorted(b.columns) and len(a) == len(b), info=f'{list(a.columns)} vs {list(b.columns)}')
    if sorted(a.columns) != sorted(b.columns) or len(a) != len(b):
        return
    r = True
    for c in ('pressure', 'loading', 'enthalpy'):
        for x, y in zip(list(a[c]), list(b[c])):
            r = r & h.eq(x, y)
    h.claim(f'{cid}/every-numeric-cell-in-order', r)
    h.claim(f'{cid}/text-column-unchanged(value-and-type)', [(type(v), v) for v in a['note']] == [(type(v), v) for v in b['note']],
            info=f"{list(b['note'])}")
    got = [int(v) for v in b['branch']]
    # region of the known finding: no desorption mark anywhere and the pressure maximum is not the last point
    imax = 0
    for i in range(1, k):
        if ps[i] > ps[imax]:
            imax = i
    regs = {'all-adsorption-marks-and-maximum-not-last': all(mk == 0 for mk in marks) and imax != k - 1}
    h.claim(f'{cid}/branch-marks', got == list(marks), regs, info=f'{got} vs {list(marks)}')
    h.claim(f'{cid}/metadata', back.properties.get('user') == 'kept' and back.units == iso.units)
    h.claim(f'{cid}/second-export-identical', same_json(h, FakeJson.docs[doc], FakeJson.docs[doc2]), regs)


def h_point_converted(h, which):
    """an isotherm that was permanently converted (labels set by convert_*, e.g. loading_unit None) round-trips too"""
    import pygaps.parsing.json as pj
    k = 3
    T, ads = isofix.sym_env(h)
    ps = isofix.increasing(h, [f'p{i}' for i in range(k)])
    ns = [h.real(f'n{i}', pos=True) for i in range(k)]
    iso = isofix.point_iso(h, ps, ns, ads=ads, T=300.0, branch=[0, 0, 1])
    iso._temperature = T          # (conversions use the symbolic temperature; the constructor on import needs a float)
    if which == 'fraction':
        iso.convert_loading(basis_to='fraction')
    elif which == 'percent+relative':
        iso.convert(pressure_mode='relative', loading_basis='percent')
    else:
        iso.convert(material_basis='volume', material_unit='cm3', loading_basis='fraction')
    iso._temperature = 300.0
    with json_patch():
        doc = pj.isotherm_to_json(iso)
        back = pj.isotherm_from_json(doc)
    cid = f'C06/point-converted/{which}'
    h.claim(f'{cid}/unit-labels', back.units == iso.units, info=f'{back.units} vs {iso.units}')
    r = True
    for c in ('pressure', 'loading'):
        for x, y in zip(list(iso.data_raw[c]), list(back.data_raw[c])):
            r = r & h.eq(x, y)
    h.claim(f'{cid}/data', len(back.data_raw) == k and r)


def obligations(tier):
    obs = []
    kw = dict(funcs=FUNCS, stubs=['json module stub (identity on JSON values)'], timeout_s=30 if tier == 'quick' else 120, validate=1)
    n = len(label_sets(tier))
    chunks = [list(range(i, n, 6)) for i in range(6)]
    for kind in ('base', 'model'):
        for ci, ch in enumerate(chunks):
            obs.append(Obligation(f'C06/{kind}/chunk{ci}', h_metadata, (kind, ch), bounds=f'{len(ch)} label sets x 16 metadata values', **kw))
    import pygaps.modelling as pgm
    for name in pgm._MODELS:
        for rk in ('zero', 'concrete', 'sym'):
            obs.append(Obligation(f'C06/model/{name}/{rk}', h_model, (name, rk), bounds='symbolic parameters, ranges, rmse', **kw))
    for which in ('fraction', 'percent+relative', 'volume-fraction'):
        obs.append(Obligation(f'C06/point-converted/{which}', h_point_converted, (which,), bounds='k=3; labels produced by convert_*', **kw))
    for marks in itertools.product((0, 1), repeat=3):
        obs.append(Obligation(f'C06/point/{marks}', h_point, (marks,), bounds='k=3 rows; extra numeric + text column', **kw))
    return obs
