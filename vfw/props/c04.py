"""C04 - read-only queries are pure and independent of query history."""
import copy
import itertools

import numpy

from ..core import Obligation
from .. import symx, stubs, isofix, wrappers
from . import c02

ASSUMPTIONS = [
    'frame obligations: every read-only entry point is run on a real PointIsotherm with k=3 symbolic points (numeric kernels of '
    'the characterisation routines replaced by recorders); labels, every data cell, index, columns, metadata, material and '
    'adsorbate property dictionaries must be identical afterwards',
    'history obligations (self-composition): outcome (value term or exception class) of a query issued after another query '
    'equals the outcome on an identical fresh object; all pairs of a stated set of interpolation settings',
    'shared thermodynamic state: FakeState returns functions of the *last* update only; every Adsorbate property method must '
    'give the same term whatever two calls preceded it (all triples)',
    'to_json / to_csv / to_aif / to_xl beyond to_dict, and the module-level kernel / reference-curve caches are file I/O and are not encoded',
]
FUNCS = ['pygaps.core.pointisotherm:PointIsotherm.loading_at', 'pygaps.core.pointisotherm:PointIsotherm.pressure_at',
         'pygaps.core.pointisotherm:PointIsotherm.spreading_pressure_at', 'pygaps.core.baseisotherm:BaseIsotherm.to_dict',
         'pygaps.core.adsorbate:Adsorbate.saturation_pressure', 'pygaps.core.adsorbate:Adsorbate.liquid_density',
         'pygaps.core.adsorbate:Adsorbate.enthalpy_liquefaction', 'pygaps.characterisation.area_bet:area_BET',
         'pygaps.characterisation.alphas_plots:alpha_s', 'pygaps.characterisation.isosteric_enth:isosteric_enthalpy',
         'pygaps.characterisation.enth_sorp_whittaker:enthalpy_sorption_whittaker', 'pygaps.iast.pgiast:iast_point',
         'pygaps.characterisation.psd_meso:psd_mesoporous', 'pygaps.characterisation.psd_micro:psd_microporous']
S0 = dict(isofix.DEFAULT_UNITS)


def full_snapshot(iso):
    s = c02.snapshot(iso)
    s['mat_props'] = dict(iso._material.properties)
    s['ads_props'] = dict(iso._adsorbate.properties)
    s['ads_alias'] = list(iso._adsorbate.alias)
    s['interp_attrs'] = sorted(k for k in vars(iso) if k not in ('l_interpolator', 'p_interpolator'))
    return s


def unchanged(h, a, b):
    ok = (a['labels'] == b['labels'] and a['mat_props'].keys() == b['mat_props'].keys() and a['ads_props'] == b['ads_props']
          and a['ads_alias'] == b['ads_alias'] and a['interp_attrs'] == b['interp_attrs'])
    if not ok:
        return False
    r = c02.frame_same(h, a, b) & c02.data_same(h, a, b) & h.eq(a['T'], b['T'])
    for k in a['mat_props']:
        r = r & h.eq(a['mat_props'][k], b['mat_props'][k])
    return r


def make_iso(h, env, marks=(0, 0, 0), units=None):
    iso = env.make(dict(S0, **(units or {})))
    iso.data_raw['branch'] = list(marks)
    iso._adsorbate.properties.update(wrappers.ADS_PROPS)
    return iso


ACCESSOR_CALLS = [
    ('data', lambda i, q: i.data(branch='ads')),
    ('pressure(Pa)', lambda i, q: i.pressure(branch='ads', pressure_unit='Pa', limits=(q, None))),
    ('pressure(relative)', lambda i, q: i.pressure(pressure_mode='relative', indexed=True)),
    ('loading(mass,mg/kg)', lambda i, q: i.loading(branch='ads', loading_basis='mass', loading_unit='mg', material_unit='kg')),
    ('loading(fraction)', lambda i, q: i.loading(loading_basis='fraction')),
    ('other_data', lambda i, q: i.other_data('enthalpy', limits=(None, q))),
    ('has_branch', lambda i, q: i.has_branch('des')),
    ('loading_at', lambda i, q: i.loading_at(q, pressure_unit='kPa', loading_unit='mol')),
    ('loading_at(fill)', lambda i, q: i.loading_at(q, interp_fill=(0.0, 9.0))),
    ('pressure_at', lambda i, q: i.pressure_at(q, loading_basis='mass', loading_unit='g', pressure_mode='relative')),
    ('spreading_pressure_at', lambda i, q: i.spreading_pressure_at(q, pressure_unit='Pa', loading_unit='mol')),
    ('to_dict', lambda i, q: i.to_dict()),
    ('units', lambda i, q: i.units),
    ('str', lambda i, q: str(i.material) + str(i.adsorbate)),
]


def h_accessor_purity(h, idx):
    env = c02.Env(h, k=3)
    iso = make_iso(h, env)
    q = h.real('q', pos=True)
    name, call = ACCESSOR_CALLS[idx]
    before = full_snapshot(iso)
    with isofix.interp_patch(h):
        try:
            call(iso, q)
            exc = None
        except Exception as e:      # noqa: BLE001
            exc = e
    after = full_snapshot(iso)
    h.claim(f'C04/purity/accessor/{name}', unchanged(h, before, after), info=repr(exc)[:80] if exc else None)


def h_characterisation_purity(h, name, branch):
    env = c02.Env(h, k=3)
    h.assume(env.dp[-1] < 1) if h.sym else None
    units = dict(pressure_mode='relative', pressure_unit=None)
    marks = (0, 0, 0) if branch == 'ads' else (1, 1, 1)
    iso = make_iso(h, env, marks, units)
    extra = {'branch': branch}
    ref = None
    if name == 'alpha_s':
        h.assume((env.dp[0] < 0.3) & (env.dp[2] > 0.5))      # the reducing pressure 0.4 lies inside the reference data
        ref = make_iso(h, env, (0, 0, 0), dict(units, loading_unit='mol'))
        extra['reference'] = ref
    before = full_snapshot(iso)
    before_ref = full_snapshot(ref) if ref is not None else None
    with isofix.interp_patch(h):
        res, calls = wrappers.run(name, iso, extra)
    after = full_snapshot(iso)
    cid = f'C04/purity/{name}/{branch}'
    h.claim(f'{cid}/returns', not isinstance(res, Exception), info=repr(res)[:160])
    h.claim(f'{cid}/isotherm-unchanged', unchanged(h, before, after))
    if ref is not None:
        h.claim(f'{cid}/reference-isotherm-unchanged', unchanged(h, before_ref, full_snapshot(ref)))


def h_no_hidden_state(h, name, variant='adsorbate'):
    """An analysis does not depend on analyses run earlier in the process (module-level or functools caches keyed by adsorbate
    name / temperature / rounded data).  Three runs of the same entry point in one process:
        1. isotherm B with its adsorbate under a DIFFERENT name (the 'fresh' answer for B; same property values, same backend),
        2. isotherm A (adsorbate 'fakegas', other property values, other data, same temperature),
        3. isotherm B with the adsorbate named 'fakegas' like A's.
    The kernel arguments of run 3 must equal those of run 1.  variant 'temperature': B is the SAME adsorbate (same property
    values) measured at another temperature."""
    from .c15 import leaves_equal
    T = h.real('T', pos=True)
    units = dict(S0, pressure_mode='relative', pressure_unit=None)

    T2 = h.real('T_other', pos=True)
    if variant == 'temperature':
        h.assume(T2 != T)

    def world(tag, adsname, props_tag):
        ads = stubs.fake_adsorbate(h, adsname, props_tag)
        temp = T2 if (variant == 'temperature' and tag == 'b') else T
        if h.sym:
            ads._state.positivity(temp)
        ads.properties.update(wrappers.ADS_PROPS)
        ads.properties['cross_sectional_area'] = h.real(f'cross_section_{props_tag}', pos=True)
        ps = isofix.increasing(h, [f'{tag}p{i}' for i in range(3)])
        h.assume(ps[-1] < 1)
        ns = isofix.increasing(h, [f'{tag}n{i}' for i in range(3)])
        mat = isofix.sym_material(h, name=f'mat{tag}')
        iso = isofix.point_iso(h, ps, ns, units=units, ads=ads, mat=mat, T=temp, branch=[0, 0, 0],
                               extra={'enthalpy': isofix.column(h, [h.real(f'{tag}e{i}') for i in range(3)])})
        return iso
    extra = {'branch': 'ads'}
    if name == 'alpha_s':
        return
    with isofix.interp_patch(h):
        bprops = 'g' if variant == 'adsorbate' else 'f'
        fresh_res, fresh_calls = wrappers.run(name, world('b', 'othergas', bprops), extra)
        a_res, a_calls = wrappers.run(name, world('a', 'fakegas', 'f'), extra)
        res, calls = wrappers.run(name, world('b', 'fakegas', bprops), extra)
    cid = f'C04/no-hidden-state/{name}' + ('' if variant == 'adsorbate' else f'/{variant}')
    if isinstance(fresh_res, Exception) or isinstance(res, Exception):
        h.claim(f'{cid}/second-analysis-behaves-like-the-fresh-one', type(fresh_res) is type(res), info=f'{fresh_res!r} vs {res!r}'[:200])
        return
    ok, why = leaves_equal(h, [c[0] for c in calls] + [c[1] for c in calls], [c[0] for c in fresh_calls] + [c[1] for c in fresh_calls], 1e-12)
    h.claim(f'{cid}/second-analysis-delivers-the-same-kernel-arguments-as-a-fresh-one', ok, info=why)


def h_export_purity(h, kind):
    """to_json (json module = identity on JSON values) leaves the exported isotherm unchanged: identifier, parameters, data"""
    import pygaps.parsing.json as pj
    from .c06 import FakeJson
    from .c10 import get_model
    T = h.real('T', pos=True)
    ads = stubs.fake_adsorbate(h, 'fakegas', 'f')
    if kind in ('model', 'model-concrete'):
        m = get_model('Langmuir')
        if kind == 'model':
            K, nm = h.real('K', pos=True), h.real('nm', pos=True)
            m.rmse = h.real('rmse', nonneg=True)
        else:
            # concrete twin (code that calls float() / round() on the parameters cannot run on proxies): values that do not
            # survive a rounding to 8 decimals or a float32 cast
            h.assume(T > 0)
            K, nm = 2.6437219e-07, 3.000000000123
            m.rmse = 1.23456789012e-05
        m.params = {'K': K, 'n_m': nm}
        iso = isofix.model_iso(h, m, ads=ads, T=T)
        iso._adsorbate = type(ads)('fakegas-placeholder')
        before = (dict(m.params), m.rmse, tuple(m.pressure_range), tuple(m.loading_range), iso._temperature, dict(iso.properties))
        FakeJson.docs = {}
        with stubs.patched((pj, 'json', FakeJson)):
            pj.isotherm_to_json(iso)
        after = (dict(m.params), m.rmse, tuple(m.pressure_range), tuple(m.loading_range), iso._temperature, dict(iso.properties))
        ok = h.eq(after[0]['K'], before[0]['K']) & h.eq(after[0]['n_m'], before[0]['n_m']) & h.eq(after[1], before[1]) & h.eq(after[4], before[4])
        h.claim(f'C04/purity/to_json/{kind}/parameters,rmse,temperature-unchanged', ok)
        h.claim(f'C04/purity/to_json/{kind}/ranges,metadata-unchanged', before[2:4] == after[2:4] and before[5] == after[5])
    else:
        env = c02.Env(h, k=3)
        iso = make_iso(h, env)
        iso._adsorbate = type(ads)('fakegas-placeholder')
        iso._adsorbate.properties.update(wrappers.ADS_PROPS)
        before = full_snapshot(iso)
        FakeJson.docs = {}
        with stubs.patched((pj, 'json', FakeJson)):
            pj.isotherm_to_json(iso)
        h.claim('C04/purity/to_json/point/isotherm-unchanged', unchanged(h, before, full_snapshot(iso)))


def h_multi_iso_purity(h, which):
    """isosteric_enthalpy / iast_point / whittaker: every isotherm passed in is unchanged (mixed units on purpose)"""
    env = c02.Env(h, k=3)
    cid = f'C04/purity/{which}'
    if which == 'isosteric_enthalpy':
        import pygaps.characterisation.isosteric_enth as ie
        isos = [make_iso(h, env), make_iso(h, env, units=dict(pressure_unit='kPa')), make_iso(h, env, units=dict(pressure_unit='Pa'))]
        for j, i in enumerate(isos):
            i._temperature = env.TK + 10 * j
        before = [full_snapshot(i) for i in isos]
        rec = wrappers.Rec(([0], [0], [0], [0]))
        l0 = env.dn[0] + (env.dn[1] - env.dn[0]) / 2
        with isofix.interp_patch(h), stubs.patched((ie, 'isosteric_enthalpy_raw', rec)):
            try:
                ie.isosteric_enthalpy(isos, loading_points=isofix.column(h, [l0]))
                exc = None
            except Exception as e:      # noqa: BLE001
                exc = e
        h.claim(f'{cid}/returns', exc is None, info=repr(exc)[:200])
    elif which == 'iast_point':
        import pygaps.iast.pgiast as pg
        from scipy import optimize
        from .c13 import obj_zeros
        isos = [make_iso(h, env), make_iso(h, env)]
        before = [full_snapshot(i) for i in isos]
        root = stubs.RootStub(h, 'root', may_fail=False, domain=lambda v: (v > 0.2) & (v < 0.8))
        pp = [env.dp[0] / 4, env.dp[0] / 4]          # fictitious pressures stay in the Henry region
        ps = [(optimize, 'root', root)] + ([(numpy, 'zeros', obj_zeros)] if h.sym else [])
        with isofix.interp_patch(h), stubs.patched(*ps):
            try:
                pg.iast_point(isos, isofix.column(h, pp), warningoff=True, adsorbed_mole_fraction_guess=[0.5, 0.5])
                exc = None
            except Exception as e:      # noqa: BLE001
                exc = e
        h.claim(f'{cid}/runs-to-a-result-or-a-pygaps-error', exc is None or type(exc).__name__ in ('CalculationError', 'ValueError'), info=repr(exc)[:200])
    else:
        import pygaps.characterisation.enth_sorp_whittaker as ew
        import pygaps.modelling as pgm
        iso = make_iso(h, env)
        iso._temperature = 300.0         # the copy made by the routine goes through the constructor (float(temperature))
        isos = [iso]
        before = [full_snapshot(i) for i in isos]

        def fake_model_iso(isotherm, **kw):
            raise RuntimeError('stop after the prologue')
        with stubs.patched((pgm, 'model_iso', fake_model_iso)):
            try:
                ew.enthalpy_sorption_whittaker(iso, model='Langmuir')
            except RuntimeError:
                pass
    for j, (b, i) in enumerate(zip(before, isos)):
        h.claim(f'{cid}/isotherm{j}-unchanged', unchanged(h, b, full_snapshot(i)))


# --------------------------------------------------------------------------
SETTINGS = [
    dict(),
    dict(interp_fill=(1.0, 9.0)),
    dict(interp_fill='extrapolate'),
    dict(interpolation_type='nearest'),
    dict(branch='des'),
    dict(pressure_unit='kPa', loading_unit='mol'),
]


def _outcome(f):
    try:
        return ('ok', f())
    except Exception as e:      # noqa: BLE001
        return ('exc', type(e).__name__)


def h_history(h, method, where):
    """all ordered pairs (earlier query, query) of the settings above"""
    env = c02.Env(h, k=3)
    marks = (0, 0, 1)
    q = h.real('q', pos=True)
    if where == 'inside':
        h.assume((q > env.dp[0]) & (q < env.dp[1]))
    elif where == 'below':
        h.assume(q < env.dp[0])
    else:
        h.assume(q > env.dp[2])

    def ask(iso, s):
        if method == 'spreading_pressure_at':
            kw = {k: v for k, v in s.items() if k in ('branch', 'interp_fill', 'pressure_unit', 'loading_unit')}
            return iso.spreading_pressure_at(q, **kw)
        if method == 'pressure_at':
            kw = {k: v for k, v in s.items() if k != 'pressure_unit'}
            return iso.pressure_at(q, **kw)
        return iso.loading_at(q, **s)

    with isofix.interp_patch(h):
        for (i, s1), (j, s2) in itertools.product(enumerate(SETTINGS), repeat=2):
            iso = make_iso(h, env, marks)
            _outcome(lambda: ask(iso, s1))
            got = _outcome(lambda: ask(iso, s2))
            fresh = make_iso(h, env, marks)
            want = _outcome(lambda: ask(fresh, s2))
            cid = f'C04/history/{method}/{where}/after{i}/query{j}'
            same_kind = got[0] == want[0] and (got[0] == 'ok' or got[1] == want[1])
            h.claim(f'{cid}/same-kind-of-outcome', same_kind, info=f'{got[:2] if got[0] == "exc" else "value"} vs fresh {want[:2] if want[0] == "exc" else "value"}')
            if same_kind and got[0] == 'ok':
                a = numpy.asarray(got[1], dtype=object).ravel()
                b = numpy.asarray(want[1], dtype=object).ravel()
                ok = len(a) == len(b)
                r = True
                if ok:
                    for x, y in zip(a, b):
                        r = r & h.eq(x, y)
                h.claim(f'{cid}/same-value', ok and r)


# --------------------------------------------------------------------------
ADS_METHODS = [
    ('saturation_pressure', lambda a, T, p: a.saturation_pressure(T)),
    ('saturation_pressure(bar)', lambda a, T, p: a.saturation_pressure(T, unit='bar')),
    ('surface_tension', lambda a, T, p: a.surface_tension(T)),
    ('liquid_density', lambda a, T, p: a.liquid_density(T)),
    ('liquid_molar_density', lambda a, T, p: a.liquid_molar_density(T)),
    ('gas_density', lambda a, T, p: a.gas_density(T)),
    ('gas_molar_density', lambda a, T, p: a.gas_molar_density(T)),
    ('enthalpy_vaporisation(T)', lambda a, T, p: a.enthalpy_vaporisation(temp=T)),
    ('enthalpy_vaporisation(p)', lambda a, T, p: a.enthalpy_vaporisation(press=p)),
    ('molar_mass', lambda a, T, p: a.molar_mass()),
]


def h_thermo_state(h, qi):
    """query method qi after every ordered pair of other calls (same temperature and another one)"""
    T = h.real('T', pos=True)
    T2 = h.real('T_other', pos=True)
    p = h.real('p_query', pos=True)
    p2 = h.real('p_other', pos=True)
    name, query = ADS_METHODS[qi]
    fresh = stubs.fake_adsorbate(h, 'fakegas', 'f')
    want = query(fresh, T, p)
    for (i, (n1, m1)), (j, (n2, m2)) in itertools.product(enumerate(ADS_METHODS), repeat=2):
        for temps in ((T, T), (T2, T), (T, T2)):
            ads = stubs.fake_adsorbate(h, 'fakegas', 'f')
            m1(ads, temps[0], p2)
            m2(ads, temps[1], p2)
            got = query(ads, T, p)
            tag = 'TT' if temps == (T, T) else ('oT' if temps[0] is T2 else 'To')
            h.claim(f'C04/thermo-state/{name}/after/{n1}/{n2}/{tag}', h.eq(got, want))


def obligations(tier):
    obs = []
    kw = dict(funcs=FUNCS, stubs=['FakeState', 'interp1d stub', 'kernel recorders'], timeout_s=30 if tier == 'quick' else 120, validate=1,
              wall_s=900)
    for i in range(len(ACCESSOR_CALLS)):
        obs.append(Obligation(f'C04/purity/accessor/{ACCESSOR_CALLS[i][0]}', h_accessor_purity, (i,), bounds='k=3', **kw))
    for name in wrappers.entries():
        for branch in ('ads', 'des'):
            obs.append(Obligation(f'C04/purity/{name}/{branch}', h_characterisation_purity, (name, branch), bounds='k=3', **kw))
    for name in wrappers.entries():
        if name != 'alpha_s':
            obs.append(Obligation(f'C04/no-hidden-state/{name}', h_no_hidden_state, (name,), bounds='k=3; three runs in one process', **kw))
            obs.append(Obligation(f'C04/no-hidden-state/{name}/temperature', h_no_hidden_state, (name, 'temperature'), bounds='k=3; three runs in one process; same adsorbate at two temperatures', **kw))
    for kind in ('model', 'model-concrete', 'point'):
        obs.append(Obligation(f'C04/purity/to_json/{kind}', h_export_purity, (kind,), bounds='k=3', **kw))
    for w in ('isosteric_enthalpy', 'iast_point', 'whittaker'):
        obs.append(Obligation(f'C04/purity/{w}', h_multi_iso_purity, (w,), bounds='k=3; 2-3 isotherms in mixed units', **kw))
    for method in ('loading_at', 'pressure_at', 'spreading_pressure_at'):
        for where in ('inside', 'below', 'above'):
            obs.append(Obligation(f'C04/history/{method}/{where}', h_history, (method, where), bounds='k=3; 6x6 ordered pairs of settings', **kw))
    for qi in range(len(ADS_METHODS)):
        obs.append(Obligation(f'C04/thermo-state/{ADS_METHODS[qi][0]}', h_thermo_state, (qi,), bounds='all ordered pairs of 10 preceding calls x 3 temperature patterns', **kw))
    return obs
