"""C20 - shipped adsorbates resolve uniquely; thermodynamic property plumbing is consistent (reduced claim)."""
import json
import os
import time

import z3

from ..core import Obligation
from .. import symx, stubs, isofix, chdriver

ASSUMPTIONS = [
    'E3: the alias relation of the shipped adsorbates is extracted at run time from adsorbates.json and from default.db (through the real '
    'adsorbates_from_db); uniqueness is a z3 satisfiability query over that finite relation; find()/the isotherm adsorbate setter are '
    'executed for every name and alias in four letter-case variants',
    'E1: Adsorbate property methods on a FakeState backend (values are unknown functions of the last update, rhomass = rhomolar * M) '
    'whose calls may fail (forked): result is the backend term, else the user-supplied property, else CalculationError',
    'NOT applicable: thermodynamic consistency of the values CoolProp itself returns for the 81 backend fluids (C++ equation-of-state code)',
]
FUNCS = ['pygaps.core.adsorbate:Adsorbate.__eq__', 'pygaps.core.adsorbate:Adsorbate.find', 'pygaps.core.adsorbate:Adsorbate.__init__',
         'pygaps.core.baseisotherm:BaseIsotherm.adsorbate', 'pygaps.parsing.sqlite:adsorbates_from_db',
         'pygaps.core.adsorbate:Adsorbate.saturation_pressure', 'pygaps.core.adsorbate:Adsorbate.liquid_density',
         'pygaps.core.adsorbate:Adsorbate.enthalpy_liquefaction']


def json_entries():
    import pygaps.data
    p = os.path.join(os.path.dirname(pygaps.data.__file__), 'adsorbates.json')
    return json.load(open(p))


def db_entries():
    import pygaps.data
    from pygaps.parsing.sqlite import adsorbates_from_db
    return adsorbates_from_db(db_path=str(pygaps.data.DATABASE), verbose=False)


def z3_alias_unique(ob, findings, prop, tier):
    """E3: exists s, i != j with s in names(i) and s in names(j)?  (all solutions enumerated)"""
    res = chdriver._empty(ob.oid)
    res['bounds'], res['funcs'], res['stubs'] = ob.bounds, ob.funcs, ob.stubs
    t0 = time.time()
    source = ob.args[0]
    if source == 'json':
        ents = [(e['name'], [e['name'].lower()] + [a.lower() for a in e.get('alias', [])]) for e in json_entries()]
    else:
        ents = [(a.name, [a.name.lower()] + list(a.alias)) for a in db_entries()]
    strings = sorted({s for _, al in ents for s in al})
    sid = {s: k for k, s in enumerate(strings)}
    I, J, Sv = z3.Ints('i j s')
    member = lambda idx, sv: z3.Or(*[z3.And(idx == n, sv == sid[s]) for n, (_, al) in enumerate(ents) for s in set(al)])
    sol = z3.Solver()
    sol.add(I < J, member(I, Sv), member(J, Sv))
    listed = [f for f in findings if f['property'] == prop and f['claim'] == f'C20/alias-unique/{source}']
    collisions = []
    while str(sol.check()) == 'sat' and len(collisions) < 20:
        m = sol.model()
        i, j, s = m[I].as_long(), m[J].as_long(), m[Sv].as_long()
        collisions.append((ents[i][0], ents[j][0], strings[s]))
        sol.add(z3.Not(z3.And(I == i, J == j, Sv == s)))
    res['claims'] = 1
    res['paths'] = 1
    res['decisions'] = len(ents)
    res['reach'] = 1
    res['validated'] = 1
    res['cases'] = len(strings)
    res['samples'].append({'claim': f'C20/alias-unique/{source}', 'adsorbates': len(ents), 'distinct_names_and_aliases': len(strings),
                           'collisions': collisions})
    bad = []
    for c in collisions:
        # replay on the real code: both adsorbates compare equal to the string
        from pygaps.core.adsorbate import Adsorbate
        hits = [a for a in (db_entries() if source == 'db' else [Adsorbate(e['name'], alias=e.get('alias')) for e in json_entries()]) if a == c[2]]
        res['replays'] += 1
        if len(hits) < 2:
            res['unconfirmed'].append({'claim': f'C20/alias-unique/{source}', 'obligation': ob.oid, 'env': {}, 'info': str(c), 'concrete_claims': [], 'log': []})
            continue
        region = f'{c[2]}:{"|".join(sorted([c[0], c[1]]))}'
        hit = [f for f in listed if f['region'] == region]
        if hit:
            res['known'].append({'claim': f'C20/alias-unique/{source}', 'pattern': hit[0]['claim'], 'region': region, 'what': hit[0]['what']})
        else:
            bad.append(c)
    if bad:
        res['sat'] = 1
        res['violations'].append({'claim': f'C20/alias-unique/{source}', 'obligation': ob.oid, 'env': {'collisions': [list(b) for b in bad]},
                                  'info': f'string designates two adsorbates: {bad}', 'concrete_claims': [], 'log': []})
    else:
        res['unsat'] = 1
    res['solver_s'] = res['wall_s'] = time.time() - t0
    return res


def variants(s):
    return sorted({s, s.lower(), s.upper(), s.title(), s.swapcase()})


def h_find_all(h, chunk, nchunks):
    """every name and alias, in every case variant, is found and links an isotherm to that adsorbate (exhaustive over the data)"""
    from pygaps.core.adsorbate import Adsorbate
    from pygaps.core.baseisotherm import BaseIsotherm
    isofix.quiet()
    ents = json_entries()
    dummy = h.real('reach', pos=True)
    dbs = {a.name: a for a in db_entries()}
    for e in ents[chunk::nchunks]:
        name = e['name']
        h.claim(f'C20/sources-agree/{name}', name in dbs and sorted(set(dbs[name].alias)) == sorted({a.lower() for a in e.get('alias', [])} | {name.lower()}),
                info=f"db={sorted(dbs[name].alias) if name in dbs else None}")
        for s in [name] + list(e.get('alias', [])):
            for v in variants(s):
                try:
                    got = Adsorbate.find(v)
                    ok = got.name == name
                    info = got.name
                except Exception as ex:      # noqa: BLE001
                    ok, info = False, repr(ex)[:80]
                regs = {'shared-alias': v.lower() == 'cyclopentane'}
                h.claim(f'C20/find/{name}/{v}', ok, regs, info=f'found {info}')
        iso = BaseIsotherm(material='m', adsorbate=name.upper(), temperature=77.0, **isofix.DEFAULT_UNITS)
        h.claim(f'C20/isotherm-links/{name}', iso.adsorbate.name == name, {'shared-alias': name.lower() == 'cyclopentane'})
    h.claim('C20/find/reached', dummy > 0)


def h_eq_contract(h):
    """alias normalisation + equality for a symbolic-length alias list is covered with concrete spellings: any case variant of the
    name or of an alias compares equal; a string that is neither does not"""
    from pygaps.core.adsorbate import Adsorbate
    dummy = h.real('reach', pos=True)
    for name, alias in [('Gas-X', ['gx', 'GasX']), ('n2o', None), ('Äther', 'aeth'), ('K', ['kelvin-gas'])]:
        a = Adsorbate(name, alias=alias)
        al = [alias] if isinstance(alias, str) else (alias or [])
        for s in [name] + list(al):
            for v in variants(s):
                h.claim(f'C20/eq/{name}/{v}', a == v)
        h.claim(f'C20/eq/{name}/other', not (a == name + 'x'))
        h.claim(f'C20/eq/{name}/same-object', a == Adsorbate(name))
    h.claim('C20/eq/reached', dummy > 0)


METHODS = {
    'saturation_pressure': (lambda a, T: a.saturation_pressure(T), 'saturation_pressure', lambda h, T, M: h.fun('psat_f', T)),
    'saturation_pressure(bar)': (lambda a, T: a.saturation_pressure(T, unit='bar'), 'saturation_pressure', lambda h, T, M: h.fun('psat_f', T) / 100000),
    'surface_tension': (lambda a, T: a.surface_tension(T), 'surface_tension', lambda h, T, M: h.fun('sigma_f', T) * 1000),
    'liquid_density': (lambda a, T: a.liquid_density(T), 'liquid_density', lambda h, T, M: h.fun('rhomolar_f', 0.0, T) * M / 1000),
    'liquid_molar_density': (lambda a, T: a.liquid_molar_density(T), 'liquid_molar_density', lambda h, T, M: h.fun('rhomolar_f', 0.0, T) / 10 ** 6),
    'gas_density': (lambda a, T: a.gas_density(T), 'gas_density', lambda h, T, M: h.fun('rhomolar_f', 1.0, T) * M / 1000),
    'gas_molar_density': (lambda a, T: a.gas_molar_density(T), 'gas_molar_density', lambda h, T, M: h.fun('rhomolar_f', 1.0, T) / 10 ** 6),
    'molar_mass': (lambda a, T: a.molar_mass(), 'molar_mass', lambda h, T, M: M * 1000),
    'enthalpy_vaporisation': (lambda a, T: a.enthalpy_vaporisation(temp=T), 'enthalpy_liquefaction',
                              lambda h, T, M: (h.fun('hmolar_f', 1.0, T) - h.fun('hmolar_f', 0.0, T)) / 1000),
}


def h_fallback(h, name):
    """backend value, else user-supplied property (unit argument still honoured), else CalculationError - never anything else"""
    from pygaps.utilities.exceptions import CalculationError
    call, prop, oracle = METHODS[name]
    T = h.real('T', pos=True)
    fails = h.flag('backend_fails')
    has_user = h.flag('user_property_supplied')
    user = h.real('user_value', pos=True)
    props = {prop: user} if has_user else {}
    ads = stubs.fake_adsorbate(h, 'fakegas', 'f', fail=(lambda what: True) if fails else None, **props)
    M = h.real('Mkg_f', pos=True)
    try:
        got = call(ads, T)
        exc = None
    except CalculationError as e:
        got, exc = None, e
    cid = f'C20/fallback/{name}'
    if not fails:
        h.claim(f'{cid}/backend-value-with-unit-factors', exc is None and h.close(got, oracle(h, T, M), 1e-12))
    elif has_user:
        want = user / 100000 if name == 'saturation_pressure(bar)' else user
        h.claim(f'{cid}/user-supplied-property-returned(unit-honoured)', exc is None and h.close(got, want, 1e-12), info=repr(got)[:80])
    else:
        h.claim(f'{cid}/nothing-available=>CalculationError', exc is not None)


def h_consistency(h):
    """mass density == molar density * molar mass (liquid and vapour); unit argument honoured"""
    T = h.real('T', pos=True)
    ads = stubs.fake_adsorbate(h, 'fakegas', 'f')
    ads._state.positivity(T) if h.sym else None
    M = ads.molar_mass()
    h.claim('C20/consistency/liquid', h.close(ads.liquid_density(T), ads.liquid_molar_density(T) * M, 1e-12))
    h.claim('C20/consistency/gas', h.close(ads.gas_density(T), ads.gas_molar_density(T) * M, 1e-12))
    # ... also after the shared backend state was moved by a pressure-based call (Whittaker does this)
    p = h.real('p_other', pos=True)
    first = ads.liquid_density(T)
    ads.enthalpy_vaporisation(press=p)
    h.claim('C20/consistency/liquid-after-a-pressure-based-call', h.close(ads.liquid_density(T), ads.liquid_molar_density(T) * M, 1e-12)
            & h.eq(ads.liquid_density(T), first))
    ads.enthalpy_vaporisation(press=p)
    h.claim('C20/consistency/saturation-pressure-after-a-pressure-based-call', h.eq(ads.saturation_pressure(T), h.fun('psat_f', T)))
    from pygaps.units.converter_unit import _PRESSURE_UNITS
    pa = ads.saturation_pressure(T)
    for u, f in _PRESSURE_UNITS.items():
        h.claim(f'C20/unit-honoured/{u}', h.close(ads.saturation_pressure(T, unit=u) * f, pa, 1e-12))
        h.claim(f'C20/unit-honoured/alias-method/{u}', h.close(ads.pressure_saturation(T, unit=u) * f, pa, 1e-12))


def obligations(tier):
    obs = []
    kw = dict(funcs=FUNCS, timeout_s=30, validate=1)
    for src in ('json', 'db'):
        obs.append(Obligation(f'C20/alias-unique/{src}', z3_alias_unique, (src,), kind='z3-direct', funcs=FUNCS,
                              bounds='all 176 shipped adsorbates, every name and alias (finite relation, z3 enumeration of all collisions)'))
    n = 8
    for c in range(n):
        obs.append(Obligation(f'C20/find/chunk{c}', h_find_all, (c, n), bounds='exhaustive over shipped names/aliases x 4-5 case variants', **kw))
    obs.append(Obligation('C20/eq', h_eq_contract, (), bounds='4 hand-made adsorbates x case variants', **kw))
    for name in METHODS:
        obs.append(Obligation(f'C20/fallback/{name}', h_fallback, (name,), stubs=['FakeState with failing calls'], bounds='backend ok/fails x user property yes/no', **kw))
    obs.append(Obligation('C20/consistency', h_consistency, (), stubs=['FakeState'], bounds='reals; 8 pressure units', **kw))
    return obs
