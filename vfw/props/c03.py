"""C03 - accessors in requested units agree with permanent conversion; selection; branch split; interpolation."""
import itertools

import numpy
import pandas

from ..core import Obligation
from .. import symx, stubs, isofix, oracle_units as O
from . import c01, c02
from .c10 import get_model, sym_params, domain

ASSUMPTIONS = [
    'differential oracle: accessor(R) on an isotherm stored in S  vs  native read on an identical isotherm permanently '
    'converted to R (C02 shows what convert() does); only "both sides return and differ" is a violation',
    'k = 2..3 symbolic strictly increasing points per branch; interp1d replaced by the piecewise-linear stub '
    '(scale-equivariance of linear interpolation is then decided by z3, not assumed)',
    'FakeState adsorbate, symbolic material density / molar mass; real arithmetic',
    'rows exactly on a limit may be selected or not (the property does not fix it)',
    'model isotherms cannot be converted permanently: the reference is the bare model evaluated after the library unit converters (C01)',
]
FUNCS = ['pygaps.core.pointisotherm:PointIsotherm.pressure', 'pygaps.core.pointisotherm:PointIsotherm.loading',
         'pygaps.core.pointisotherm:PointIsotherm.other_data', 'pygaps.core.pointisotherm:PointIsotherm.loading_at',
         'pygaps.core.pointisotherm:PointIsotherm.pressure_at', 'pygaps.core.pointisotherm:PointIsotherm.data',
         'pygaps.core.modelisotherm:ModelIsotherm.loading_at', 'pygaps.core.modelisotherm:ModelIsotherm.pressure_at',
         'pygaps.core.modelisotherm:ModelIsotherm.pressure', 'pygaps.core.modelisotherm:ModelIsotherm.loading',
         'pygaps.utilities.isotherm_interpolator:IsothermInterpolator.__init__', 'pygaps.utilities.math_utilities:split_ads_data',
         'pygaps.utilities.pygaps_utilities:get_iso_loading_and_pressure_ordered']
FR = ('fraction', 'percent')
BASE_S = dict(pressure_mode='absolute', pressure_unit='bar', loading_basis='molar', loading_unit='mmol', material_basis='mass',
              material_unit='g', temperature_unit='K')


def _try(f):
    try:
        return f(), None
    except Exception as e:      # noqa: BLE001
        return None, e


def _vals(x):
    if isinstance(x, pandas.Series):
        return list(x.values)
    if isinstance(x, numpy.ndarray):
        return list(x.ravel())
    if isinstance(x, (list, tuple)):
        return list(x)
    return [x]


def _all_close(h, a, b, tol):
    a, b = _vals(a), _vals(b)
    if len(a) != len(b):
        return False
    r = True
    for x, y in zip(a, b):
        r = r & (h.close(x, y, tol) if tol else h.eq(x, y))
    return r


def req_kwargs(S, R):
    """accessor / convert keyword arguments that request representation R (only what differs from S)"""
    kw = {}
    if (R['pressure_mode'], R['pressure_unit']) != (S['pressure_mode'], S['pressure_unit']):
        kw['pressure_mode'] = R['pressure_mode']
        if R['pressure_unit']:
            kw['pressure_unit'] = R['pressure_unit']
    if (R['material_basis'], R['material_unit']) != (S['material_basis'], S['material_unit']):
        kw['material_basis'] = R['material_basis']
        kw['material_unit'] = R['material_unit']
    if (R['loading_basis'], R['loading_unit']) != (S['loading_basis'], S['loading_unit']):
        kw['loading_basis'] = R['loading_basis']
        if R['loading_unit']:
            kw['loading_unit'] = R['loading_unit']
    return kw


def regions_for(S, R):
    mat_changes = (R['material_basis'], R['material_unit']) != (S['material_basis'], S['material_unit'])
    return {
        'stored-fraction-and-material-changes': S['loading_basis'] in FR and mat_changes,
        'requested-fraction-and-material-changes': R['loading_basis'] in FR and S['loading_basis'] not in FR and mat_changes,
    }


def h_point_accessors(h, S, Rs):
    """PointIsotherm accessors vs permanent conversion for every requested representation in Rs"""
    with stubs.exact_unit_tables(h):
        _point_accessors(h, S, Rs)


def _point_accessors(h, S, Rs):
    env = c02.Env(h, k=3)
    # query position inside the first segment: q = x0 + t (x1 - x0), t in (1e-6, 1 - 1e-6) (float-precomputed unit
    # factors are inverse to each other only to 1e-16, so the query is kept off the nodes)
    tpar = h.real('t_query')
    h.assume((tpar > 1e-6) & (tpar < 1 - 1e-6))
    for i in range(2):      # points at least 0.1 % apart (same reason)
        h.assume((env.dp[i + 1] > env.dp[i] * 1.001) & (env.dn[i + 1] > env.dn[i] * 1.001))
    for R in Rs:
        kw = req_kwargs(S, R)
        pkw = {k: v for k, v in kw.items() if k.startswith('pressure')}
        lkw = {k: v for k, v in kw.items() if not k.startswith('pressure')}
        tag = '|'.join(f'{k}={v}' for k, v in kw.items()) or 'same'
        cid = f"C03/point/{S['pressure_mode']}:{S['pressure_unit']},{S['loading_basis']}:{S['loading_unit']}/{S['material_basis']}:{S['material_unit']}->{tag}"
        tol = 0      # exact: unit factors are exact rationals in the encoding (see symx._frac_of_float)
        regs = regions_for(S, R)
        iso = env.make(S)
        ref = env.make(S)
        _, cerr = _try(lambda: ref.convert(**kw)) if kw else (None, None)
        with isofix.interp_patch(h):
            # whole-branch reads
            got_p, e1 = _try(lambda: iso.pressure(branch='ads', **pkw))
            got_l, e2 = _try(lambda: iso.loading(branch='ads', **lkw))
            if cerr is None:
                want_p = ref.pressure(branch='ads')
                want_l = ref.loading(branch='ads')
                if e1 is None:
                    h.claim(f'{cid}/pressure()', _all_close(h, got_p, want_p, tol), regs)
                if e2 is None:
                    h.claim(f'{cid}/loading()', _all_close(h, got_l, want_l, tol), regs)
                # interpolated reads: the query is given in the requested representation
                wp = _vals(want_p)
                qp = wp[0] + tpar * (wp[1] - wp[0])
                got, e3 = _try(lambda: iso.loading_at(qp, **kw))
                want, e4 = _try(lambda: ref.loading_at(qp))
                if e3 is None and e4 is None:
                    h.claim(f'{cid}/loading_at(q)', _all_close(h, got, want, tol), regs)
                wl = _vals(want_l)
                ql = wl[0] + tpar * (wl[1] - wl[0])
                got, e5 = _try(lambda: iso.pressure_at(ql, **kw))
                want, e6 = _try(lambda: ref.pressure_at(ql))
                if e5 is None and e6 is None:
                    h.claim(f'{cid}/pressure_at(n)', _all_close(h, got, want, tol), regs)
                h.claim(f'{cid}/reached', True)
            else:
                h.claim(f'{cid}/convert-refused(no claim)', True, info=repr(cerr)[:80])
        # the accessor must not have modified the isotherm it was called on (labels and data)
        h.claim(f'{cid}/accessor-leaves-isotherm-unchanged', c02.labels_of(iso) == S | {'pressure_unit': S['pressure_unit']}
                and c02.data_same(h, c02.snapshot(iso), c02.snapshot(env.make(S))))


def h_get_ordered(h, branch):
    """get_iso_loading_and_pressure_ordered: requested units, desorption reversed to increasing order"""
    from pygaps.utilities.pygaps_utilities import get_iso_loading_and_pressure_ordered as g
    env = c02.Env(h, k=3)
    S = dict(BASE_S)
    iso = env.make(S)
    iso.data_raw['branch'] = [0, 0, 0] if branch == 'ads' else [1, 1, 1]
    ref = env.make(S)
    ref.data_raw['branch'] = list(iso.data_raw['branch'])
    ref.convert(pressure_mode='relative', loading_basis='volume_liquid', loading_unit='cm3')
    p, l = g(iso, branch, dict(loading_basis='volume_liquid', loading_unit='cm3'), dict(pressure_mode='relative'))
    wp, wl = list(ref.data_raw['pressure']), list(ref.data_raw['loading'])
    if branch == 'des':
        wp, wl = wp[::-1], wl[::-1]
    h.claim(f'C03/ordered/{branch}', _all_close(h, p, wp, 1e-9) & _all_close(h, l, wl, 1e-9))


# --------------------------------------------------------------------------
def h_selection(h, which, marks, convert):
    """branch + limits selection: exactly the stored points of the branch inside the limits, in stored order"""
    env = c02.Env(h, k=3)
    S = dict(BASE_S)
    iso = env.make(S)
    iso.data_raw['branch'] = list(marks)
    lo = h.real('lo')
    hi = h.real('hi')
    h.assume(lo < hi)
    lim_kinds = {'both': (lo, hi), 'lo-only': (lo, None), 'hi-only': (None, hi)}
    for lk, limits in lim_kinds.items():
        for branch in ('ads', 'des', None):
            kw = {}
            if which == 'pressure':
                if convert:
                    kw = dict(pressure_unit='Pa')
                call = lambda indexed: iso.pressure(branch=branch, limits=limits, indexed=indexed, **kw)
                col = [v * (100000 if convert else 1) for v in env.dp]
            elif which == 'loading':
                if convert:
                    kw = dict(loading_unit='mol')
                call = lambda indexed: iso.loading(branch=branch, limits=limits, indexed=indexed, **kw)
                col = [v * (symx.realval(0.001) if (convert and h.sym) else (0.001 if convert else 1)) for v in env.dn]
            else:
                call = lambda indexed: iso.other_data('enthalpy', branch=branch, limits=limits, indexed=indexed)
                col = list(env.extra_num)
            ser = call(True)
            arr = call(False)
            cid = f'C03/selection/{which}/marks={marks}/conv={convert}/{lk}/branch={branch}'
            idx = list(iso.data_raw.index)
            rows = [i for i in range(3) if branch is None or marks[i] == (0 if branch == 'ads' else 1)]
            chosen = [idx.index(lbl) for lbl in ser.index]
            ok = chosen == sorted(chosen) and all(c in rows for c in chosen)
            h.claim(f'{cid}/rows-of-branch-in-stored-order', ok, info=f'chosen={chosen} rows={rows}')
            if not ok:
                continue
            cond = True
            l0, l1 = limits
            for i in rows:
                inside = True
                outside = False
                if l0 is not None:
                    inside = inside & (col[i] > l0)
                    outside = outside | (col[i] < l0)
                if l1 is not None:
                    inside = inside & (col[i] < l1)
                    outside = outside | (col[i] > l1)
                if i in chosen:
                    cond = cond & ~outside if not isinstance(outside, bool) else (cond & (not outside))
                else:
                    cond = cond & ~inside if not isinstance(inside, bool) else (cond & (not inside))
            h.claim(f'{cid}/inside-in,outside-out', cond)
            h.claim(f'{cid}/values', _all_close(h, ser, [col[i] for i in chosen], 1e-12) & _all_close(h, arr, [col[i] for i in chosen], 1e-12))


# --------------------------------------------------------------------------
INDEXES = [None, [7, 3, 5, 9, 1], ['e', 'd', 'c', 'b', 'a'], [1, 0, 2, 3, 4], [4, 3, 2, 1, 0], [1, 2, 3, 4, 5]]


def h_split(h, k, via):
    """branch guess depends only on the sequence of pressures: marks[i] = 1 iff i is after the first pressure maximum
    (all points desorption when the first point is the maximum), for every row labelling"""
    from pygaps.utilities.math_utilities import split_ads_data
    ps = [h.real(f'p{i}', pos=True) for i in range(k)]
    ns = [h.real(f'n{i}', pos=True) for i in range(k)]
    results = []
    for idx in INDEXES:
        index = idx[:k] if idx is not None else None
        df = pandas.DataFrame({'pressure': isofix.column(h, ps), 'loading': isofix.column(h, ns)}, index=index)
        if via == 'function':
            marks = list(split_ads_data(df, 'pressure'))
        else:
            T, ads = isofix.sym_env(h)
            from pygaps.core.pointisotherm import PointIsotherm
            iso = PointIsotherm(isotherm_data=df, pressure_key='pressure', loading_key='loading', material='m',
                                adsorbate='fakegas-placeholder', temperature=300.0, **isofix.DEFAULT_UNITS)
            marks = list(iso.data_raw['branch'])
        results.append([int(m) for m in marks])
    # oracle: position of the first maximum
    imax = 0
    for i in range(1, k):
        if ps[i] > ps[imax]:
            imax = i
    if imax == k - 1:
        want = [0] * k
    elif imax == 0:
        want = [1] * k
    else:
        want = [0] * (imax + 1) + [1] * (k - imax - 1)
    for idx, r in zip(INDEXES, results):
        h.claim(f'C03/split/{via}/k={k}/index={idx[:k] if idx else None}/label-independent', r == results[0], info=f'{r} vs {results[0]}')
    h.claim(f'C03/split/{via}/k={k}/marks==after-first-maximum', results[0] == want, info=f'{results[0]} want {want} imax={imax}')


# --------------------------------------------------------------------------
def h_interp_config(h, kind, fill_i, branch='ads'):
    """interpolated reads: measured points, straight line between neighbours, refusal / fill rule outside the range - on the
    adsorption branch (increasing pressures) and on the desorption branch (stored in DEcreasing pressure order); where the
    library builds a scipy interp1d, it is handed exactly (x=pressure, y=loading, kind, fill)"""
    fills = [None, 5.0, (1.0, 9.0), 'extrapolate']
    fill = fills[fill_i]
    env = c02.Env(h, k=3)
    iso = env.make(dict(BASE_S))
    dp, dn = list(env.dp), list(env.dn)
    if branch == 'des':
        # a desorption run: same points, measured from high to low pressure
        iso.data_raw[iso.pressure_key] = isofix.column(h, dp[::-1])
        iso.data_raw[iso.loading_key] = isofix.column(h, dn[::-1])
        iso.data_raw['branch'] = [1, 1, 1]
    else:
        iso.data_raw['branch'] = [0, 0, 0]
    kw = dict(interpolation_type=kind, interp_fill=fill, branch=branch)
    with isofix.interp_patch(h):
        n_before = len(isofix.FakeInterp1d.instances)
        a0, e0 = _try(lambda: iso.loading_at(dp[1], **kw))
        cid = f'C03/interp/{kind}/fill={fill}' + ('' if branch == 'ads' else '/des')
        if len(isofix.FakeInterp1d.instances) > n_before:
            rec = isofix.FakeInterp1d.instances[-1]
            # (the recorder may hold the nodes as given or sorted, like scipy: the pairs are what matters)
            h.claim(f'{cid}/x==pressure,y==loading', (_all_close(h, rec['x'], dp, 0) & _all_close(h, rec['y'], dn, 0))
                    | (_all_close(h, rec['x'], dp[::-1], 0) & _all_close(h, rec['y'], dn[::-1], 0)))
            h.claim(f'{cid}/kind-passed', rec['kind'] == kind)
            if fill is None:
                h.claim(f'{cid}/bounds-error-kept', rec['bounds_error'] in (None, True))
            else:
                h.claim(f'{cid}/fill-passed', rec['bounds_error'] is False and rec['fill_value'] == fill)
        h.claim(f'{cid}/measured-point', e0 is None and _all_close(h, a0, [dn[1]], 1e-12), info=repr(e0))
        if kind == 'linear':
            q = h.real('q', pos=True)
            h.assume((q > dp[0]) & (q < dp[1]))
            got, e = _try(lambda: iso.loading_at(q, **kw))
            want = dn[0] + (dn[1] - dn[0]) * (q - dp[0]) / (dp[1] - dp[0])
            h.claim(f'{cid}/straight-line-between-neighbours', e is None and _all_close(h, got, [want], 1e-12), info=repr(e))
        out = h.real('q_out', pos=True)
        h.assume(out > dp[2])
        got, e = _try(lambda: iso.loading_at(out, **kw))
        if fill is None:
            h.claim(f'{cid}/refused-outside-range', e is not None)
        else:
            h.claim(f'{cid}/fill-rule-outside-range', e is None, info=repr(e))
        # same for pressure_at (x = loading, y = pressure)
        n_before = len(isofix.FakeInterp1d.instances)
        b0, e1 = _try(lambda: iso.pressure_at(dn[1], **kw))
        if len(isofix.FakeInterp1d.instances) > n_before:
            rec = isofix.FakeInterp1d.instances[-1]
            h.claim(f'{cid}/pressure_at:x==loading,y==pressure', (_all_close(h, rec['x'], dn, 0) & _all_close(h, rec['y'], dp, 0))
                    | (_all_close(h, rec['x'], dn[::-1], 0) & _all_close(h, rec['y'], dp[::-1], 0)))
        h.claim(f'{cid}/pressure_at-measured-point', e1 is None and _all_close(h, b0, [dp[1]], 1e-12), info=repr(e1))


def h_cache_sequence(h, seq_i):
    """two interpolated reads with different settings on one object equal the same reads on fresh objects"""
    env = c02.Env(h, k=3)
    S = dict(BASE_S)
    mk = lambda: env.make(S)
    settings = [
        (dict(interp_fill=(1.0, 9.0)), dict()),
        (dict(branch='ads'), dict(branch='des')),
        (dict(interpolation_type='linear'), dict(interpolation_type='nearest')),
        (dict(interp_fill='extrapolate'), dict(interp_fill=4.0)),
        (dict(), dict(interp_fill=(1.0, 9.0))),
    ][seq_i]
    q = h.real('q_out', pos=True)
    h.assume(q > env.dp[2])
    with isofix.interp_patch(h):
        iso = mk()
        iso.data_raw['branch'] = [0, 0, 0] if seq_i != 1 else [0, 0, 0]
        _try(lambda: iso.loading_at(q, **settings[0]))
        second, e2 = _try(lambda: iso.loading_at(q, **settings[1]))
        fresh = mk()
        fresh.data_raw['branch'] = list(iso.data_raw['branch'])
        want, ew = _try(lambda: fresh.loading_at(q, **settings[1]))
    cid = f'C03/cache-sequence/{seq_i}'
    h.claim(f'{cid}/same-kind-of-outcome', (e2 is None) == (ew is None) and (e2 is None or type(e2) is type(ew)),
            info=f'{e2!r} vs fresh {ew!r}')
    if e2 is None and ew is None:
        h.claim(f'{cid}/same-value', _all_close(h, second, want, 1e-12))


# --------------------------------------------------------------------------
MODEL_REQ = [
    dict(pressure_unit='Pa'), dict(pressure_mode='relative'), dict(pressure_mode='relative%'),
    dict(loading_unit='mol'), dict(loading_basis='mass', loading_unit='mg'), dict(loading_basis='volume_liquid', loading_unit='cm3'),
    dict(material_unit='kg'), dict(material_basis='volume', material_unit='cm3'),
    dict(pressure_unit='torr', loading_basis='volume_gas', loading_unit='L', material_basis='molar', material_unit='mol'),
    dict(loading_basis='fraction'), dict(loading_basis='percent', material_basis='mass', material_unit='kg'),
    dict(loading_basis='fraction', material_basis='volume', material_unit='cm3'),
]


def h_model_accessors(h, name, ri):
    """ModelIsotherm.loading_at / pressure_at: bare model value after unit conversion (library converters as reference)"""
    from pygaps.units.converter_mode import c_pressure, c_loading, c_material
    T, ads = isofix.sym_env(h)
    m = get_model(name)
    sym_params(h, m)
    S = dict(BASE_S)
    iso = isofix.model_iso(h, m, units=S, ads=ads, T=T)
    req = MODEL_REQ[ri]
    pm = req.get('pressure_mode') or S['pressure_mode']
    pu = req.get('pressure_unit') or (S['pressure_unit'] if pm == 'absolute' else None)
    mb = req.get('material_basis') or S['material_basis']
    mu = req.get('material_unit') or S['material_unit']
    lb = req.get('loading_basis') or S['loading_basis']
    lu = req.get('loading_unit') or (S['loading_unit'] if lb == S['loading_basis'] else None)
    mat_ch = (mb, mu) != (S['material_basis'], S['material_unit'])
    regs = {'requested-fraction-and-material-changes': lb in FR and mat_ch}
    from .c10 import regions as model_regions
    preg = dict(regs)
    preg.update(model_regions(name, m))      # the model's own inverse is wrong on a degenerate parameter surface (C10 finding)

    def to_req_loading(n):
        r = n
        if mat_ch:
            r = c_material(r, S['material_basis'], mb, S['material_unit'], mu, material=iso.material)
        if lb != S['loading_basis'] or lu != S['loading_unit']:
            r = c_loading(r, S['loading_basis'], lb, S['loading_unit'], lu, adsorbate=ads, temp=T, basis_material=mb, unit_material=mu)
        return r

    p_native = h.real('p', pos=True)
    domain(h, name, m, p=p_native)
    p_req = c_pressure(p_native, S['pressure_mode'], pm, S['pressure_unit'], pu, adsorbate=ads, temp=T)
    cid = f'C03/model/{name}/{"|".join(f"{k}={v}" for k, v in req.items())}'
    got, e = _try(lambda: iso.loading_at(p_req, **req))
    if e is None:
        h.claim(f'{cid}/loading_at', _all_close(h, got, [to_req_loading(m.loading(p_native))], 1e-9), regs)
    else:
        h.claim(f'{cid}/loading_at-refused(no claim)', True, info=repr(e)[:80])
    n_native = m.loading(p_native)
    n_req = to_req_loading(n_native)
    got, e = _try(lambda: iso.pressure_at(n_req, **req))
    if e is None:
        h.claim(f'{cid}/pressure_at', _all_close(h, got, [p_req], 1e-9), preg)
    else:
        h.claim(f'{cid}/pressure_at-refused(no claim)', True, info=repr(e)[:80])


def obligations(tier):
    obs = []
    kw = dict(funcs=FUNCS, stubs=['FakeState', 'interp1d piecewise-linear stub'], timeout_s=30 if tier == 'quick' else 120,
              validate=1, wall_s=900)
    # A. pressure 10 x 10
    for rep in c01.pressure_reps():
        S = dict(BASE_S, pressure_mode=rep[0], pressure_unit=rep[1])
        Rs = [dict(S, pressure_mode=r[0], pressure_unit=r[1]) for r in c01.pressure_reps()]
        obs.append(Obligation(f'C03/point/pressure/{rep[0]}:{rep[1]}', h_point_accessors, (S, Rs), bounds='k=3; 10 requested pressure representations', **kw))
    # B. physical loading 25 x 25
    phys = [r for r in c01.loading_reps() if r[0] not in FR]
    for rep in phys:
        S = dict(BASE_S, loading_basis=rep[0], loading_unit=rep[1])
        targets = phys if tier == 'thorough' else [r for r in phys if r[1] in ('mol', 'cm3(STP)', 'mg', 'kg', 'cm3', 'L', 'mmol', 'g')]
        Rs = [dict(S, loading_basis=r[0], loading_unit=r[1]) for r in targets]
        obs.append(Obligation(f'C03/point/loading/{rep[0]}:{rep[1]}', h_point_accessors, (S, Rs), bounds=f'k=3; {len(Rs)} requested loading representations', **kw))
    # C. material 19 x 19
    mreps = c01.material_reps()
    for rep in mreps:
        S = dict(BASE_S, material_basis=rep[0], material_unit=rep[1])
        targets = mreps if tier == 'thorough' else [r for r in mreps if r[1] in ('g', 'kg', 'cm3', 'm3', 'mol', 'mmol', 'cm3(STP)')]
        Rs = [dict(S, material_basis=r[0], material_unit=r[1]) for r in targets]
        obs.append(Obligation(f'C03/point/material/{rep[0]}:{rep[1]}', h_point_accessors, (S, Rs), bounds=f'k=3; {len(Rs)} requested material representations', **kw))
    # D. fraction / percent involvement
    lsel = [('fraction', None), ('percent', None), ('molar', 'mmol'), ('mass', 'g')]
    msel = [('mass', 'g'), ('mass', 'kg'), ('volume', 'cm3'), ('molar', 'mol')]
    for ls, ms in itertools.product(lsel, msel[:3]):
        S = dict(BASE_S, loading_basis=ls[0], loading_unit=ls[1], material_basis=ms[0], material_unit=ms[1])
        Rs = [dict(S, loading_basis=lr[0], loading_unit=lr[1], material_basis=mr[0], material_unit=mr[1])
              for lr, mr in itertools.product(lsel, msel) if (ls[0] in FR or lr[0] in FR)]
        obs.append(Obligation(f'C03/point/fraction/{ls[0]}@{ms[0]}:{ms[1]}', h_point_accessors, (S, Rs), bounds=f'k=3; {len(Rs)} requests involving fraction/percent', **kw))
    for b in ('ads', 'des'):
        obs.append(Obligation(f'C03/ordered/{b}', h_get_ordered, (b,), bounds='k=3', **kw))
    # E. selection
    for which in ('pressure', 'loading', 'other'):
        for marks in ([(0, 0, 1), (0, 1, 0)] if tier == 'quick' else [(0, 0, 1), (0, 1, 0), (1, 0, 0), (0, 0, 0), (1, 1, 1), (1, 0, 1)]):
            for conv in ((False, True) if which != 'other' else (False,)):
                obs.append(Obligation(f'C03/selection/{which}/{marks}/{conv}', h_selection, (which, marks, conv),
                                      bounds='k=3 rows; symbolic limits; all branches', **kw))
    # F. branch split
    for k in ((3, 4) if tier == 'quick' else (2, 3, 4, 5)):
        obs.append(Obligation(f'C03/split/function/k={k}', h_split, (k, 'function'), bounds=f'k={k}; 6 row labellings', **kw))
    obs.append(Obligation('C03/split/constructor/k=3', h_split, (3, 'constructor'), bounds='k=3; 6 row labellings', **kw))
    # G. interpolator configuration
    for kind in ('linear', 'nearest', 'quadratic') if tier == 'quick' else ('linear', 'nearest', 'zero', 'slinear', 'quadratic'):
        for fi in range(4):
            obs.append(Obligation(f'C03/interp/{kind}/{fi}', h_interp_config, (kind, fi), bounds='k=3', **kw))
            if kind == 'linear':
                obs.append(Obligation(f'C03/interp/{kind}/{fi}/des', h_interp_config, (kind, fi, 'des'), bounds='k=3; desorption branch stored high to low', **kw))
    for i in range(5):
        obs.append(Obligation(f'C03/cache-sequence/{i}', h_cache_sequence, (i,), bounds='k=3; two reads', **kw))
    # H. model isotherms
    for name in (['Langmuir', 'Henry'] if tier == 'quick' else ['Langmuir', 'Henry', 'BET', 'DSLangmuir', 'Quadratic']):
        for ri in range(len(MODEL_REQ)):
            obs.append(Obligation(f'C03/model/{name}/{ri}', h_model_accessors, (name, ri), bounds='reals', **kw))
    return obs
