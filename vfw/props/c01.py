"""C01 - unit / mode / basis conversions against an independent SI oracle."""
import itertools
import logging

import numpy

from ..core import Obligation
from .. import symx, stubs, oracle_units as O

ASSUMPTIONS = [
    'real arithmetic; library float constants are read at their decimal value',
    'CoolProp AbstractState replaced by FakeState: psat(T), rhomolar(q,T) uninterpreted positive functions of the last '
    'update, rhomass = rhomolar*molar_mass (the /1000, /1e6, *1000 factors and quality 0/1 choice of adsorbate.py are real code)',
    'oracle tolerances: 1e-12 decimal prefixes; 1e-5 mmHg/torr/amu; 2e-4 (STP) gas volumes (library constants are rounded)',
    'labels are enumerated exhaustively from the tables of the running code; "unknown label" is represented by None, "", '
    'an instrumented unknown string and a unit of the wrong family',
    'temperature: any string containing c/C is accepted by the library as a spelling of degree Celsius (documented leniency)',
]
FUNCS = ['pygaps.units.converter_mode:c_pressure', 'pygaps.units.converter_mode:c_loading',
         'pygaps.units.converter_mode:c_material', 'pygaps.units.converter_mode:c_temperature',
         'pygaps.units.converter_unit:c_unit', 'pygaps.core.adsorbate:Adsorbate.saturation_pressure',
         'pygaps.core.adsorbate:Adsorbate.liquid_density', 'pygaps.core.adsorbate:Adsorbate.gas_molar_density',
         'pygaps.core.material:Material.density']


def quiet():
    logging.getLogger('pygaps').setLevel(logging.CRITICAL)


def tables():
    from pygaps.units import converter_mode as cm
    return cm


def pressure_reps():
    cm = tables()
    reps = []
    for mode, tab in cm._PRESSURE_MODE.items():
        if tab:
            reps += [(mode, u) for u in tab]
        else:
            reps.append((mode, None))
    return reps


def loading_reps():
    cm = tables()
    reps = []
    for basis, tab in cm._LOADING_MODE.items():
        if tab:
            reps += [(basis, u) for u in tab]
        else:
            reps.append((basis, None))
    return reps


def material_reps():
    cm = tables()
    return [(b, u) for b, tab in cm._MATERIAL_MODE.items() for u in tab]


def temperature_reps():
    from pygaps.units.converter_unit import _TEMPERATURE_UNITS
    return list(_TEMPERATURE_UNITS)


def setup_ads(h):
    quiet()
    T = h.real('T', pos=True)
    ads = stubs.fake_adsorbate(h, 'fakegas', 'f')
    if h.sym:
        ads._state.positivity(T)
    Mg = ads._state.molar_mass() * 1000
    rl = h.fun('rhomolar_f', 0.0, T) / 10 ** 6
    rg = h.fun('rhomolar_f', 1.0, T) / 10 ** 6
    psat = h.fun('psat_f', T)
    return T, ads, O.Thermo(Mg, rl, rg), psat


def setup_mat(h):
    from pygaps.core.material import Material
    mat = Material('symmat')
    d = h.real('mat_density', pos=True)
    mm = h.real('mat_molar_mass', pos=True)
    mat.properties['density'] = d
    mat.properties['molar_mass'] = mm
    return mat, d, mm


# --------------------------------------------------------------------------
def h_pressure(h, rep_from):
    from pygaps.units.converter_mode import c_pressure
    T, ads, th, psat = setup_ads(h)
    v = h.real('v')
    hub = ('absolute', 'Pa')
    mf, uf = rep_from
    for (mt, ut) in pressure_reps():
        tag = f'{mf}:{uf}->{mt}:{ut}'
        got = c_pressure(v, mf, mt, uf, ut, adsorbate=ads, temp=T)
        want = O.pressure_from_pa(O.pressure_to_pa(v, mf, uf, psat), mt, ut, psat)
        h.claim(f'C01/pressure/factor/{tag}', h.isnum(got) and h.close(got, want, O.tol(uf, ut)),
                {'amu': 'amu' in (uf, ut)}, info=tag)
        back = c_pressure(got, mt, mf, ut, uf, adsorbate=ads, temp=T)
        h.claim(f'C01/pressure/there-and-back/{tag}', h.close(back, v, 1e-12))
        via = c_pressure(c_pressure(v, mf, hub[0], uf, hub[1], adsorbate=ads, temp=T), hub[0], mt, hub[1], ut,
                         adsorbate=ads, temp=T)
        h.claim(f'C01/pressure/via-hub/{tag}', h.close(via, got, 1e-12))
        if (mf, uf) == (mt, ut):
            h.claim(f'C01/pressure/identity/{tag}', h.close(got, v, 1e-12))


def h_two_adsorbates(h, kind):
    """the given adsorbate's (and temperature's) properties are used, whatever was converted before in the process: conversions
    for adsorbate A and then for a different adsorbate B at the SAME temperature, and for B at a second temperature"""
    from pygaps.units.converter_mode import c_pressure, c_loading
    quiet()
    T = h.real('T', pos=True)
    T2 = h.real('T2', pos=True)
    v = h.real('v')
    worlds = {}
    for tag in ('f', 'g'):
        ads = stubs.fake_adsorbate(h, 'fakegas' if tag == 'f' else 'othergas', tag)
        if h.sym:
            ads._state.positivity(T)
            ads._state.positivity(T2)
        worlds[tag] = ads

    def thermo(tag, temp):
        Mg = worlds[tag]._state.molar_mass() * 1000
        return O.Thermo(Mg, h.fun(f'rhomolar_{tag}', 0.0, temp) / 10 ** 6, h.fun(f'rhomolar_{tag}', 1.0, temp) / 10 ** 6), h.fun(f'psat_{tag}', temp)
    for step, (tag, temp) in enumerate([('f', T), ('g', T), ('g', T2), ('f', T)]):
        th, psat = thermo(tag, temp)
        if kind == 'pressure':
            got = c_pressure(v, 'absolute', 'relative', 'bar', None, adsorbate=worlds[tag], temp=temp)
            want = O.pressure_from_pa(O.pressure_to_pa(v, 'absolute', 'bar', psat), 'relative', None, psat)
        else:
            got = c_loading(v, 'molar', 'volume_liquid', 'mmol', 'cm3', adsorbate=worlds[tag], temp=temp, basis_material='mass', unit_material='g')
            want = O.loading_from_mol(O.loading_to_mol(v, 'molar', 'mmol', th, 'mass', 'g'), 'volume_liquid', 'cm3', th, 'mass', 'g')
        h.claim(f'C01/two-adsorbates/{kind}/step{step}:{tag}', h.isnum(got) and h.close(got, want, 1e-12))


def _cl(v, rf, rt, ads, T, mrep):
    from pygaps.units.converter_mode import c_loading
    return c_loading(v, rf[0], rt[0], rf[1], rt[1], adsorbate=ads, temp=T,
                     basis_material=mrep[0], unit_material=mrep[1])


def h_loading(h, rep_from, mreps):
    T, ads, th, psat = setup_ads(h)
    v = h.real('v')
    hub = ('molar', 'mol')
    fracs = ('fraction', 'percent')
    for rt in loading_reps():
        need_mat = rep_from[0] in fracs or rt[0] in fracs
        for mrep in (mreps if need_mat else [(None, None)]):
            tag = f'{rep_from[0]}:{rep_from[1]}->{rt[0]}:{rt[1]}' + (f'@{mrep[0]}:{mrep[1]}' if need_mat else '')
            got = _cl(v, rep_from, rt, ads, T, mrep)
            want = O.loading_from_mol(O.loading_to_mol(v, rep_from[0], rep_from[1], th, *mrep), rt[0], rt[1], th, *mrep)
            units = O.loading_units_involved(rep_from[0], rep_from[1], mrep[1]) + O.loading_units_involved(rt[0], rt[1], mrep[1])
            h.claim(f'C01/loading/factor/{tag}', h.isnum(got) and h.close(got, want, O.tol(*units)),
                    {'amu': 'amu' in units}, info=tag)
            back = _cl(got, rt, rep_from, ads, T, mrep)
            h.claim(f'C01/loading/there-and-back/{tag}', h.close(back, v, 1e-12))
            via = _cl(_cl(v, rep_from, hub, ads, T, mrep), hub, rt, ads, T, mrep)
            h.claim(f'C01/loading/via-hub/{tag}', h.close(via, got, 1e-12))
            if rep_from == rt:
                h.claim(f'C01/loading/identity/{tag}', h.close(got, v, 1e-12))


def h_material(h, rep_from):
    from pygaps.units.converter_mode import c_material
    quiet()
    mat, d, mm = setup_mat(h)
    v = h.real('v')
    hub = ('mass', 'g')
    bf, uf = rep_from
    for (bt, ut) in material_reps():
        tag = f'{bf}:{uf}->{bt}:{ut}'
        got = c_material(v, bf, bt, uf, ut, material=mat)
        want = O.material_from_per_g(O.material_to_per_g(v, bf, uf, d, mm), bt, ut, d, mm)
        h.claim(f'C01/material/factor/{tag}', h.isnum(got) and h.close(got, want, O.tol(uf, ut)),
                {'amu': 'amu' in (uf, ut)}, info=tag)
        back = c_material(got, bt, bf, ut, uf, material=mat)
        h.claim(f'C01/material/there-and-back/{tag}', h.close(back, v, 1e-12))
        via = c_material(c_material(v, bf, hub[0], uf, hub[1], material=mat), hub[0], bt, hub[1], ut, material=mat)
        h.claim(f'C01/material/via-hub/{tag}', h.close(via, got, 1e-12))
        if rep_from == (bt, ut):
            h.claim(f'C01/material/identity/{tag}', h.close(got, v, 1e-12))


def h_temperature(h):
    from pygaps.units.converter_mode import c_temperature
    v = h.real('v')
    spell = {'K': ['K'], '°C': ['°C', 'C', 'degC', 'celsius']}
    for uf in temperature_reps():
        for ut in temperature_reps():
            for sf in spell[uf]:
                for st_ in spell[ut]:
                    got = c_temperature(v, sf, st_)
                    want = O.temperature_from_k(O.temperature_to_k(v, uf), ut)
                    h.claim(f'C01/temperature/factor/{sf}->{st_}', h.close(got, want, 1e-12))
                    back = c_temperature(got, st_, sf)
                    h.claim(f'C01/temperature/there-and-back/{sf}->{st_}', h.close(back, v, 1e-12))


def h_triples(h, kind, reps_a):
    """thorough: f(a,b) f(b,c) == f(a,c) for all triples (exact, in the library's own arithmetic)"""
    if kind == 'pressure':
        from pygaps.units.converter_mode import c_pressure
        T, ads, th, psat = setup_ads(h)
        reps = pressure_reps()
        conv = lambda v, a, b: c_pressure(v, a[0], b[0], a[1], b[1], adsorbate=ads, temp=T)
    elif kind == 'material':
        from pygaps.units.converter_mode import c_material
        quiet()
        mat, d, mm = setup_mat(h)
        reps = material_reps()
        conv = lambda v, a, b: c_material(v, a[0], b[0], a[1], b[1], material=mat)
    else:
        T, ads, th, psat = setup_ads(h)
        reps = [r for r in loading_reps()]
        mrep = ('mass', 'g')
        conv = lambda v, a, b: _cl(v, a, b, ads, T, mrep)
    v = h.real('v')
    for a in reps_a:
        for b in reps:
            ab = conv(v, a, b)
            for c in reps:
                h.claim(f'C01/{kind}/triple/{a}->{b}->{c}', h.close(conv(ab, b, c), conv(v, a, c), 1e-12))


def h_containers(h, kind, rf, rt):
    """scalar, 0-d array, object ndarray and pandas Series give the same numbers (k = 2)"""
    import pandas
    if kind == 'pressure':
        from pygaps.units.converter_mode import c_pressure
        T, ads, th, psat = setup_ads(h)
        conv = lambda v: c_pressure(v, rf[0], rt[0], rf[1], rt[1], adsorbate=ads, temp=T)
    elif kind == 'material':
        from pygaps.units.converter_mode import c_material
        quiet()
        mat, d, mm = setup_mat(h)
        conv = lambda v: c_material(v, rf[0], rt[0], rf[1], rt[1], material=mat)
    else:
        T, ads, th, psat = setup_ads(h)
        conv = lambda v: _cl(v, rf, rt, ads, T, ('mass', 'g'))
    a, b = h.real('v0'), h.real('v1')
    sa, sb = conv(a), conv(b)
    dt = object if h.sym else float
    arr_in = numpy.array([a, b], dtype=dt)
    ser_in = pandas.Series([a, b], dtype=dt)
    arr = conv(arr_in)
    ser = conv(ser_in)
    z = numpy.empty((), dtype=dt)
    z[()] = a
    z0 = conv(z)
    z0 = z0.item() if isinstance(z0, numpy.ndarray) else z0
    tag = f'{kind}/{rf}->{rt}'
    h.claim(f'C01/containers/{tag}/ndarray', isinstance(arr, numpy.ndarray) and arr.shape == (2,)
            and h.close(arr[0], sa, 1e-12) & h.close(arr[1], sb, 1e-12))
    h.claim(f'C01/containers/{tag}/series', isinstance(ser, pandas.Series) and len(ser) == 2
            and h.close(ser.iloc[0], sa, 1e-12) & h.close(ser.iloc[1], sb, 1e-12))
    h.claim(f'C01/containers/{tag}/0-d', h.close(z0, sa, 1e-12))
    h.claim(f'C01/containers/{tag}/caller-array-not-modified',
            h.eq(arr_in[0], a) & h.eq(arr_in[1], b) & h.eq(ser_in.iloc[0], a) & h.eq(ser_in.iloc[1], b))


# --------------------------------------------------------------------------
BAD = [None, '', stubs.OTHER]


def other_family_units(table_of, basis):
    """one unit of every *other* unit family that is not also a unit of this basis"""
    own = set(table_of[basis] or ())
    out = []
    seen = set()
    for b, tab in table_of.items():
        if not tab or b == basis or id(tab) in seen:
            continue
        seen.add(id(tab))
        for u in tab:
            if u not in own:
                out.append(u)
                break
    return out


def _expect_refusal(h, cid, call, v):
    """call() must raise ParameterError; returning any number is a violation"""
    from pygaps.utilities.exceptions import ParameterError
    try:
        r = call()
    except ParameterError:
        h.claim(cid, True)
        return
    except Exception as e:      # noqa: BLE001
        h.claim(cid, False, {'KeyError-for-missing-material-rep': isinstance(e, KeyError)},
                info=f'raised {type(e).__name__}: {e} instead of ParameterError')
        return
    h.claim(cid, False, info=f'returned {r!r} instead of raising ParameterError')


def _never_other_number(h, cid, call, v, good=None):
    """a call whose bad label is not needed for the conversion may be refused or give the regular result"""
    from pygaps.utilities.exceptions import ParameterError
    try:
        r = call()
    except ParameterError:
        h.claim(cid, True)
        return
    want = good() if good is not None else v
    h.claim(cid, h.isnum(r) and h.close(r, want, 1e-12), info=f'returned {r!r}')


def h_refusal_pressure(h):
    from pygaps.units.converter_mode import c_pressure
    from pygaps.units.converter_unit import _VOLUME_UNITS
    T, ads, th, psat = setup_ads(h)
    v = h.real('v')
    reps = [('absolute', 'bar'), ('absolute', 'Pa'), ('relative', None), ('relative%', None)]
    wrong = BAD + [next(iter(_VOLUME_UNITS))]
    for (mf, uf), (mt, ut) in itertools.product(reps, reps):
        for bad in BAD + ['absolut']:
            _expect_refusal(h, f'C01/refusal/pressure/mode_from={bad!r}/{mf}:{uf}->{mt}:{ut}',
                            lambda: c_pressure(v, bad, mt, uf, ut, adsorbate=ads, temp=T), v)
            _expect_refusal(h, f'C01/refusal/pressure/mode_to={bad!r}/{mf}:{uf}->{mt}:{ut}',
                            lambda: c_pressure(v, mf, bad, uf, ut, adsorbate=ads, temp=T), v)
        for bad in wrong:
            # unit needed: mode change with an absolute side, or absolute->absolute with a target unit
            need_from = (mf == 'absolute' and mt != 'absolute') or (mf == mt == 'absolute' and ut)
            need_to = (mt == 'absolute' and mf != 'absolute') or (mf == mt == 'absolute' and bad)
            cf = lambda: c_pressure(v, mf, mt, bad, ut, adsorbate=ads, temp=T)
            ct = lambda: c_pressure(v, mf, mt, uf, bad, adsorbate=ads, temp=T)
            good = lambda: c_pressure(v, mf, mt, uf, ut, adsorbate=ads, temp=T)
            if need_from:
                _expect_refusal(h, f'C01/refusal/pressure/unit_from={bad!r}/{mf}:{uf}->{mt}:{ut}', cf, v)
            else:
                _never_other_number(h, f'C01/refusal/pressure/unit_from={bad!r}/{mf}:{uf}->{mt}:{ut}', cf, v, good)
            if mf == mt == 'absolute' and not bad:
                _never_other_number(h, f'C01/refusal/pressure/unit_to={bad!r}/{mf}:{uf}->{mt}:{ut}', ct, v)
            elif need_to:
                _expect_refusal(h, f'C01/refusal/pressure/unit_to={bad!r}/{mf}:{uf}->{mt}:{ut}', ct, v)
            else:
                _never_other_number(h, f'C01/refusal/pressure/unit_to={bad!r}/{mf}:{uf}->{mt}:{ut}', ct, v, good)
        if 'absolute' in (mf, mt) and mf != mt:
            for t0 in (None, 0):
                _expect_refusal(h, f'C01/refusal/pressure/temp={t0!r}/{mf}:{uf}->{mt}:{ut}',
                                lambda: c_pressure(v, mf, mt, uf, ut, adsorbate=ads, temp=t0), v)


def h_refusal_loading(h):
    from pygaps.units.converter_mode import c_loading
    T, ads, th, psat = setup_ads(h)
    v = h.real('v')
    reps = [('molar', 'mmol'), ('mass', 'g'), ('volume_gas', 'cm3'), ('volume_liquid', 'mL'), ('fraction', None), ('percent', None)]
    fr = ('fraction', 'percent')
    mrep = ('mass', 'g')
    for (bf, uf), (bt, ut) in itertools.product(reps, reps):
        tag = f'{bf}:{uf}->{bt}:{ut}'
        kw = dict(adsorbate=ads, temp=T, basis_material=mrep[0], unit_material=mrep[1])
        for bad in BAD + ['volume']:
            _expect_refusal(h, f'C01/refusal/loading/basis_from={bad!r}/{tag}', lambda: c_loading(v, bad, bt, uf, ut, **kw), v)
            _expect_refusal(h, f'C01/refusal/loading/basis_to={bad!r}/{tag}', lambda: c_loading(v, bf, bad, uf, ut, **kw), v)
        cmode = tables()._LOADING_MODE
        wrong_f = other_family_units(cmode, bf) if bf not in fr else []
        wrong_t = other_family_units(cmode, bt) if bt not in fr else []
        for bad in BAD + ['Pa'] + sorted(set(wrong_f + wrong_t)):
            if bad in (cmode.get(bf) or ()) or bad in (cmode.get(bt) or ()):
                if (bad in (cmode.get(bf) or ())) and (bad in (cmode.get(bt) or ())):
                    continue
            need_from = (bf != bt and bf not in fr) or (bf == bt and bf not in fr and ut and ut != bad)
            need_to = (bf != bt and bt not in fr) or (bf == bt and bt not in fr and bad and uf != bad)
            cf = lambda: c_loading(v, bf, bt, bad, ut, **kw)
            ct = lambda: c_loading(v, bf, bt, uf, bad, **kw)
            good = lambda: c_loading(v, bf, bt, uf, ut, **kw)
            if bad in (cmode.get(bf) or ()):
                pass
            elif need_from:
                _expect_refusal(h, f'C01/refusal/loading/unit_from={bad!r}/{tag}', cf, v)
            else:
                _never_other_number(h, f'C01/refusal/loading/unit_from={bad!r}/{tag}', cf, v, good if bf != bt else None)
            if bad in (cmode.get(bt) or ()):
                pass
            elif bf == bt and not bad:
                _never_other_number(h, f'C01/refusal/loading/unit_to={bad!r}/{tag}', ct, v)
            elif need_to:
                _expect_refusal(h, f'C01/refusal/loading/unit_to={bad!r}/{tag}', ct, v)
            else:
                _never_other_number(h, f'C01/refusal/loading/unit_to={bad!r}/{tag}', ct, v, good if bf != bt else None)
        if (bf in fr) != (bt in fr):
            for bad in BAD + ['percent']:
                _expect_refusal(h, f'C01/refusal/loading/basis_material={bad!r}/{tag}',
                                lambda: c_loading(v, bf, bt, uf, ut, adsorbate=ads, temp=T, basis_material=bad, unit_material='g'), v)
            for bad in BAD + ['Pa']:
                _expect_refusal(h, f'C01/refusal/loading/unit_material={bad!r}/{tag}',
                                lambda: c_loading(v, bf, bt, uf, ut, adsorbate=ads, temp=T, basis_material='mass', unit_material=bad), v)


def h_refusal_material(h):
    from pygaps.units.converter_mode import c_material
    quiet()
    mat, d, mm = setup_mat(h)
    v = h.real('v')
    reps = [('mass', 'g'), ('mass', 'kg'), ('volume', 'cm3'), ('molar', 'mol')]
    for (bf, uf), (bt, ut) in itertools.product(reps, reps):
        tag = f'{bf}:{uf}->{bt}:{ut}'
        for bad in BAD + ['fraction', 'volume_gas']:
            _expect_refusal(h, f'C01/refusal/material/basis_from={bad!r}/{tag}', lambda: c_material(v, bad, bt, uf, ut, material=mat), v)
            _expect_refusal(h, f'C01/refusal/material/basis_to={bad!r}/{tag}', lambda: c_material(v, bf, bad, uf, ut, material=mat), v)
        mmode = tables()._MATERIAL_MODE
        for bad in BAD + ['Pa'] + sorted(set(other_family_units(mmode, bf) + other_family_units(mmode, bt))):
            need_from = bf != bt or (ut and ut != bad)
            need_to = bf != bt or (bad and uf != bad)
            cf = lambda: c_material(v, bf, bt, bad, ut, material=mat)
            ct = lambda: c_material(v, bf, bt, uf, bad, material=mat)
            if bad not in mmode[bf]:
                (_expect_refusal if need_from else _never_other_number)(h, f'C01/refusal/material/unit_from={bad!r}/{tag}', cf, v)
            if bad not in mmode[bt]:
                (_expect_refusal if need_to else _never_other_number)(h, f'C01/refusal/material/unit_to={bad!r}/{tag}', ct, v)


def h_refusal_temperature(h):
    from pygaps.units.converter_mode import c_temperature
    v = h.real('v')
    for good in ('K', '°C'):
        for bad in BAD + ['F', 'Pa']:
            _expect_refusal(h, f'C01/refusal/temperature/unit_from={bad!r}->{good}', lambda: c_temperature(v, bad, good), v)
            _expect_refusal(h, f'C01/refusal/temperature/{good}->unit_to={bad!r}', lambda: c_temperature(v, good, bad), v)


def obligations(tier):
    obs = []
    kw = dict(funcs=FUNCS, stubs=['FakeState (CoolProp AbstractState)'], timeout_s=30 if tier == 'quick' else 120, validate=1)
    for rep in pressure_reps():
        obs.append(Obligation(f'C01/pressure/{rep[0]}:{rep[1]}', h_pressure, (rep,), bounds='all 10 target representations; reals', **kw))
    mall = material_reps()
    mquick = [('mass', 'g'), ('mass', 'kg'), ('volume', 'cm3'), ('volume', 'm3'), ('molar', 'mol'), ('molar', 'mmol')]
    for rep in loading_reps():
        ms = mall if (tier == 'thorough' or rep[0] in ('fraction', 'percent')) else mquick
        obs.append(Obligation(f'C01/loading/{rep[0]}:{rep[1]}', h_loading, (rep, ms),
                              bounds=f'all 27 target representations x {len(ms)} material representations where fraction/percent is involved; reals', **kw))
    for rep in mall:
        obs.append(Obligation(f'C01/material/{rep[0]}:{rep[1]}', h_material, (rep,), bounds='all 19 target representations; reals', **kw))
    obs.append(Obligation('C01/temperature', h_temperature, (), bounds='K, degC and accepted spellings; reals', **kw))
    # containers: one representative pair per basis/mode pair
    for (a, b) in itertools.product([('absolute', 'bar'), ('relative', None), ('relative%', None)], repeat=2):
        obs.append(Obligation(f'C01/containers/pressure/{a}->{b}', h_containers, ('pressure', a, b), bounds='k=2 rows', **kw))
    lrep = [('molar', 'mmol'), ('mass', 'mg'), ('volume_gas', 'L'), ('volume_liquid', 'cm3'), ('fraction', None), ('percent', None)]
    for (a, b) in itertools.product(lrep, repeat=2):
        obs.append(Obligation(f'C01/containers/loading/{a}->{b}', h_containers, ('loading', a, b), bounds='k=2 rows', **kw))
    for (a, b) in itertools.product([('mass', 'kg'), ('volume', 'cm3'), ('molar', 'mol')], repeat=2):
        obs.append(Obligation(f'C01/containers/material/{a}->{b}', h_containers, ('material', a, b), bounds='k=2 rows', **kw))
    for kind in ('pressure', 'loading'):
        obs.append(Obligation(f'C01/two-adsorbates/{kind}', h_two_adsorbates, (kind,), bounds='two adsorbates, two temperatures, four conversions in one process', **kw))
    obs.append(Obligation('C01/refusal/pressure', h_refusal_pressure, (), bounds='bad label in {None, "", unknown string, wrong family}', **kw))
    obs.append(Obligation('C01/refusal/loading', h_refusal_loading, (), bounds='bad label in {None, "", unknown string, wrong family}', **kw))
    obs.append(Obligation('C01/refusal/material', h_refusal_material, (), bounds='bad label in {None, "", unknown string, wrong family}', **kw))
    obs.append(Obligation('C01/refusal/temperature', h_refusal_temperature, (), bounds='bad label in {None, "", unknown string, wrong family}', **kw))
    if tier == 'thorough':
        for rep in pressure_reps():
            obs.append(Obligation(f'C01/triples/pressure/{rep}', h_triples, ('pressure', [rep]), bounds='all triples', **kw))
        for rep in loading_reps():
            obs.append(Obligation(f'C01/triples/loading/{rep}', h_triples, ('loading', [rep]), bounds='all triples; material (mass, g)', **kw))
        for rep in mall:
            obs.append(Obligation(f'C01/triples/material/{rep}', h_triples, ('material', [rep]), bounds='all triples', **kw))
    return obs
