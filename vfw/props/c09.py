"""C09 - database operations are atomic under statement failures and process death."""
import shutil

import numpy

from ..core import Obligation
from .. import sqlstore as S, isofix

ASSUMPTIONS = [
    'the database engine is the real sqlite3 on a scratch file (no relational stub); SQLite own guarantee that an uncommitted '
    'transaction of a dead process is discarded (rollback journal) is trusted: process death is a BaseException raised by '
    'execute()/commit() before or after the statement took effect, after which only the file content is inspected',
    'symbolic and exhaustively forked by the explorer: presence of the relevant catalogue items in the file before the call and the '
    'flags of the operation; enumerated inside each path: the index k of the failing statement (every statement the operation '
    'issues on that path, and the commit), the fault kind {IntegrityError, InterfaceError, OperationalError, process death} and '
    'before/after for process death - each on a fresh copy of the pre-state file',
    'item catalogue: one adsorbate with 3 properties (one list-valued), one material with 2 properties, one point isotherm with an '
    'extra column and two metadata entries; concrete values',
    'torn writes inside SQLite and disk-full are outside the claim',
]
LEVEL = 'fault_enumeration'
FUNCS = ['pygaps.parsing.sqlite:with_connection', 'pygaps.parsing.sqlite:adsorbate_to_db', 'pygaps.parsing.sqlite:adsorbate_delete_db',
         'pygaps.parsing.sqlite:material_to_db', 'pygaps.parsing.sqlite:material_delete_db', 'pygaps.parsing.sqlite:isotherm_to_db',
         'pygaps.parsing.sqlite:isotherm_delete_db', 'pygaps.parsing.sqlite:_upload_one_all_columns', 'pygaps.parsing.sqlite:_delete_by_id']
KINDS = ['IntegrityError', 'InterfaceError', 'OperationalError', 'Crash']


def catalogue():
    import pygaps
    from pygaps.core.adsorbate import Adsorbate
    from pygaps.core.material import Material
    isofix.quiet()
    ads = Adsorbate('gasA', alias=['gas-a', 'GA'], molar_mass=28.0, custom_ads=1.5)
    mat = Material('matM', density=2.0, custom_mat=7.0)
    iso = pygaps.PointIsotherm(pressure=[1.0, 2.0, 3.0], loading=[0.5, 1.0, 1.2], material=mat, adsorbate='gasA', temperature=77.0,
                               pressure_mode='absolute', pressure_unit='bar', loading_basis='molar', loading_unit='mmol',
                               material_basis='mass', material_unit='g', temperature_unit='K', user='u1', number=3)
    iso.data_raw['extra'] = [1.5, 2.5, 3.5]
    return ads, mat, iso


def items(ads, mat):
    return {
        'ads': dict(kind='ads', name=ads.name, props=[('alias', 'gas-a'), ('alias', 'ga'), ('alias', 'gasa'), ('molar_mass', 28.0), ('custom_ads', 9.0)]),
        'ads_type_custom': dict(kind='ads_type', type='custom_ads'),
        'mat': dict(kind='mat', name=mat.name, props=[('density', 2.0), ('custom_mat', 3.0)]),
        'mat_type_custom': dict(kind='mat_type', type='custom_mat'),
    }


OPS = {
    'adsorbate_to_db': lambda ps, c, path, fl: ps.adsorbate_to_db(c[0], db_path=path, overwrite=fl['overwrite'], autoinsert_properties=fl['autoinsert'], verbose=False),
    'adsorbate_delete_db': lambda ps, c, path, fl: ps.adsorbate_delete_db(c[0], db_path=path, verbose=False),
    'material_to_db': lambda ps, c, path, fl: ps.material_to_db(c[1], db_path=path, overwrite=fl['overwrite'], autoinsert_properties=fl['autoinsert'], verbose=False),
    'material_delete_db': lambda ps, c, path, fl: ps.material_delete_db(c[1], db_path=path, verbose=False),
    'isotherm_to_db': lambda ps, c, path, fl: ps.isotherm_to_db(c[2], db_path=path, autoinsert_material=fl['autoinsert'], autoinsert_adsorbate=fl['autoinsert'], verbose=False),
    'isotherm_delete_db': lambda ps, c, path, fl: ps.isotherm_delete_db(c[2], db_path=path, verbose=False),
}
HAS_FLAGS = {'adsorbate_to_db', 'material_to_db'}


def h_atomic(h, op, overwrite):
    ps = S.fresh_sqlite_module()
    from pygaps.utilities.exceptions import ParsingError
    try:
        cat = catalogue()
        path = S.new_db()
        its = items(cat[0], cat[1])
        if op.startswith('adsorbate'):
            its = {k: v for k, v in its.items() if k.startswith('ads')}
        elif op.startswith('material'):
            its = {k: v for k, v in its.items() if k.startswith('mat')}
        else:
            its = {k: v for k, v in its.items() if k in ('ads', 'mat')}
        present = S.prestate(path, h, its)
        fl = dict(overwrite=overwrite, autoinsert=h.flag('autoinsert') if op.endswith('to_db') else True)
        if op == 'isotherm_delete_db':
            # the isotherm (and what it references) may or may not be stored
            if h.flag('present_iso'):
                with S.registries(mats=[cat[1]] if present['mat'] else [], adss=[cat[0]] if present['ads'] else []):
                    ps.isotherm_to_db(cat[2], db_path=path, verbose=False)
        pre = S.content(path)
        # 1. fault-free dry run on a copy: number of statements on this path and the complete effect
        dry = path + '.dry'
        shutil.copy(path, dry)
        with S.registries(), S.faulty_sqlite(None) as log:
            try:
                OPS[op](ps, cat, dry, fl)
                dry_exc = None
            except ParsingError as e:
                dry_exc = S.detach(e)
        n = log[0].n_statements
        cid = f'C09/{op}/overwrite={overwrite}'
        h.claim(f'{cid}/one-connection,one-transaction', len(log) == 1 and [t[0] for t in log[0].trace].count('commit') == (0 if dry_exc else 1)
                and log[0].trace[-1][0] == 'close')
        pragmas = [t[2].strip().rstrip(';').lower().replace(' ', '') for t in log[0].trace if t[0] == 'execute' and t[1] == 'PRAGMA']
        h.claim(f'{cid}/transaction-discipline:only-PRAGMA-foreign_keys', all(p == 'pragmaforeign_keys=on' for p in pragmas), info=str(pragmas))
        full = S.content(dry)
        if dry_exc is not None:
            h.claim(f'{cid}/refused=>nothing-changed', full == pre, info=str(dry_exc)[:100])
        # 2. the same call with one fault: every statement index (statement 0 is the wrapper's PRAGMA) and the commit,
        #    every fault kind; each on a fresh copy of the pre-state file
        schedule = [(k, kind, 'before') for k in list(range(1, n)) + ['commit'] for kind in KINDS]
        schedule += [(k, 'Crash', 'after') for k in list(range(1, n)) + ['commit']]
        if dry_exc is not None:
            schedule = [f for f in schedule if f[0] != 'commit']       # a refused call never reaches the commit
        for fault in schedule:
            k, kind, when = fault
            work = path + '.work'
            shutil.copy(path, work)
            with S.registries(), S.faulty_sqlite(fault) as log:
                try:
                    OPS[op](ps, cat, work, fl)
                    exc = None
                except (Exception, S.Crash) as e:      # noqa: BLE001
                    exc = S.detach(e)
            hit = log[0].fault_hit
            post = S.content(work)
            fid = f'{cid}/k={k}/{kind}/{when}'
            regs = {'overwrite-swallows-IntegrityError': bool(overwrite) and kind == 'IntegrityError' and hit and exc is None}
            h.claim(f'{fid}/no-orphans', post['orphans'] == 0, regs)
            if not hit:
                # the call was refused before reaching statement k: same refusal, nothing changed
                h.claim(f'{fid}/fault-not-reached=>same-outcome-as-fault-free', (exc is None) == (dry_exc is None) and post == full)
                continue
            committed_effect = k == 'commit' and when == 'after'
            tr = [t[0] for t in log[0].trace]
            if committed_effect:
                h.claim(f'{fid}/death-after-commit=>complete-effect', post == full, regs)
            else:
                h.claim(f'{fid}/fault=>nothing-of-the-operation-is-stored', post == pre, regs,
                        info=f'exc={type(exc).__name__ if exc else None}')
                h.claim(f'{fid}/no-commit-after-a-fault', 'commit' not in tr[tr.index('fault') + 1:] if 'fault' in tr else True, regs)
            if kind in ('IntegrityError', 'InterfaceError') and k != 'commit':
                h.claim(f'{fid}/statement-rejected=>ParsingError', isinstance(exc, ParsingError), regs, info=repr(exc)[:100])
            # 3. the operation can be repeated on the resulting file and then has its complete effect
            with S.registries(), S.faulty_sqlite(None):
                try:
                    OPS[op](ps, cat, work, fl)
                    rexc = None
                except ParsingError as e:
                    rexc = S.detach(e)
            again = S.content(work)
            if committed_effect:
                h.claim(f'{fid}/repeat-after-complete-effect-leaves-a-valid-store', again['orphans'] == 0)
            else:
                h.claim(f'{fid}/repeat-succeeds-like-the-fault-free-call', (rexc is None) == (dry_exc is None) and again == full, regs,
                        info=f'{rexc!r}'[:100])
    finally:
        S.cleanup()


def obligations(tier):
    obs = []
    kw = dict(funcs=FUNCS, stubs=['sqlite3.connect wrapper (statement counter + fault injection) around the real engine'],
              timeout_s=30, validate=1, max_paths=20000, wall_s=1500)
    for op in OPS:
        for ow in ((False, True) if op in HAS_FLAGS else (False,)):
            obs.append(Obligation(f'C09/{op}/overwrite={ow}', h_atomic, (op, ow),
                                  bounds='all presence subsets of the catalogue x flags x every statement index x 4 fault kinds', **kw))
    return obs
