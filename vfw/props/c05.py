"""C05 - isotherm identity is determined by content and only by content (reduced claim: what is fed to the hash)."""
import copy

import numpy
import pandas

from ..core import Obligation
from .. import symx, stubs, isofix
from .c06 import FakeJson, same_json
from .c10 import get_model

ASSUMPTIONS = [
    'in the symbolic run md5 and pandas.util.hash_pandas_object are replaced by injective recorders (the hash is as good as its '
    'pre-image): the identifier is a token for (sorted-key JSON value of to_dict(), [rounded data frame: columns in order, index, '
    'dtypes, cells] | model dictionary); equality of identifiers = equality of pre-images, decided by z3 over symbolic cells, '
    'metadata values and model parameters; in the concrete replay the real md5 / pandas hashing run',
    'NOT encodable (pandas C hashing): the 8-decimal rounding of float cells and PYTHONHASHSEED / process stability; index and '
    'dtype sensitivity of hash_pandas_object is represented by putting index labels and dtype names into the recorded pre-image',
]
FUNCS = ['pygaps.utilities.hashgen:isotherm_to_hash', 'pygaps.core.baseisotherm:BaseIsotherm.iso_id', 'pygaps.core.baseisotherm:BaseIsotherm.__eq__',
         'pygaps.core.baseisotherm:BaseIsotherm.to_dict', 'pygaps.modelling.base_model:IsothermBaseModel.to_dict',
         'pygaps.core.pointisotherm:PointIsotherm.__init__']
FRAMES = {}


class FrameHash:
    """recorder for hash_pandas_object(frame): .sum() is a token of the frame content as pandas hashes it"""

    def __init__(self, frame):
        self.frame = frame

    # hash_pandas_object returns a Series of row hashes: the ways of reducing it to one number that keep all rows
    def to_numpy(self, *a, **k):
        return self

    @property
    def values(self):
        return self

    def __getattr__(self, name):
        if name.startswith('__'):
            raise AttributeError(name)
        symx.STUB_GAPS.append(f'hash_pandas_object(...).{name}')
        raise AttributeError(f'the row-hash recorder does not model Series.{name}')

    def sum(self, *a, **k):
        f = self.frame
        def kind(c, t):
            if str(t) == 'object':
                return 'float' if any(symx.is_sym(v) for v in f[c]) else 'object'
            return {'b': 'int', 'i': 'int', 'u': 'int', 'f': 'float'}.get(t.kind, str(t))     # pandas hashes bool/int of any width alike

        def cell(v):
            if symx.is_sym(v):
                return v
            if isinstance(v, (bool, numpy.bool_, int, float, numpy.number)):
                return float(v)
            return repr(v)
        snap = {'columns': [str(c) for c in f.columns], 'index': [repr(i) for i in f.index],
                'dtypes': [kind(c, t) for c, t in zip(f.columns, f.dtypes)], 'cells': [[cell(v) for v in f[c]] for c in f.columns]}
        tok = f'FRAME#{len(FRAMES)}'
        FRAMES[tok] = snap
        return tok


class FakeMd5:
    def __init__(self, data):
        self.data = data

    def hexdigest(self):
        return 'ID:' + self.data.decode('utf-8')


def patches(h):
    import pygaps.utilities.hashgen as hg
    if not h.sym:
        return stubs.patched()
    FakeJson.docs = {}
    FRAMES.clear()
    fake_hashlib = type('H', (), {'md5': staticmethod(lambda b: FakeMd5(b))})
    return stubs.patched((hg, 'json', FakeJson), (hg, 'hash_pandas_object', lambda fr, **k: FrameHash(fr)), (hg, 'hashlib', fake_hashlib))


def preimage(ident):
    """token -> the recorded JSON value with the frame token expanded"""
    doc = copy.copy(FakeJson.docs[ident[3:]])
    dh = doc.get('data_hash')
    if isinstance(dh, str) and dh in FRAMES:
        doc['data_hash'] = FRAMES[dh]
    return doc


def same_id(h, a, b):
    if not h.sym:
        return a == b
    return same_json(h, preimage(a), preimage(b))


def sym_not(x):
    return (not x) if isinstance(x, bool) else ~x


def base_iso(h, T):
    from pygaps.core.baseisotherm import BaseIsotherm
    from pygaps.core.material import Material
    iso = BaseIsotherm(material=Material('matM', density=2.5), adsorbate='fakegas-placeholder', temperature=300.0,
                       **isofix.DEFAULT_UNITS, user='u', number=3)
    iso._temperature = T
    return iso


def h_changes(h, kind):
    """read the identifier, change one piece of content IN PLACE (no attribute assignment on the isotherm where possible),
    read it again: it must differ; undo the change: it must be the first identifier again"""
    isofix.quiet()
    T = h.real('T', pos=True)
    v0, v1 = h.real('old_value'), h.real('new_value')
    h.assume(v0 != v1)
    with patches(h):
        if kind.startswith('point'):
            ps = isofix.increasing(h, ['p0', 'p1', 'p2'])
            ns = [h.real(f'n{i}', pos=True) for i in range(3)]
            ads = stubs.fake_adsorbate(h, 'fakegas', 'f')
            iso = isofix.point_iso(h, ps, ns, ads=ads, T=T, branch=[False, False, True] if kind == 'point/branch-bool' else [0, 0, 1],
                                   extra={'enthalpy': isofix.column(h, [v0, h.real('e1'), h.real('e2')])}, properties={'user': 'u', 'value': v0})
            iso._adsorbate = type(ads)('fakegas-placeholder')
        elif kind.startswith('model'):
            m = get_model('Langmuir')
            m.params = {'K': v0, 'n_m': h.real('nm', pos=True)}
            m.rmse = v0
            m.pressure_range = (v0, h.real('pr_hi'))
            iso = isofix.model_iso(h, m, ads=stubs.fake_adsorbate(h, 'fakegas', 'f'), T=T, properties={'user': 'u', 'value': v0})
            iso._adsorbate = type(iso._adsorbate)('fakegas-placeholder')
        else:
            iso = base_iso(h, T)
            iso.properties['value'] = v0
        first = iso.iso_id
        undo = None
        if kind.endswith('/metadata-value'):
            iso.properties['value'] = v1
            undo = lambda: iso.properties.__setitem__('value', v0)
        elif kind.endswith('/metadata-new-key'):
            iso.properties['zz_new'] = 'x'
            undo = lambda: iso.properties.pop('zz_new')
        elif kind.endswith('/unit-label'):
            iso.material_unit = 'kg'
            undo = lambda: setattr(iso, 'material_unit', 'g')
        elif kind.endswith('/temperature'):
            iso._temperature = T + 1
            undo = lambda: setattr(iso, '_temperature', T)
        elif kind.endswith('/material-property'):
            iso.material.properties['density'] = 9.75
            undo = lambda: iso.material.properties.__setitem__('density', 2.5)
        elif kind == 'point/data-cell':
            iso.data_raw.loc[iso.data_raw.index[0], 'enthalpy'] = v1
            undo = lambda: iso.data_raw.__setitem__('enthalpy', isofix.column(h, [v0, h.real('e1'), h.real('e2')]))
        elif kind in ('point/branch-mark', 'point/branch-bool'):
            old = list(iso.data_raw['branch'])
            new = list(old)
            new[1] = (not old[1]) if kind == 'point/branch-bool' else 1 - old[1]
            iso.data_raw['branch'] = new
            undo = lambda: iso.data_raw.__setitem__('branch', old)
        elif kind == 'model/parameter':
            iso.model.params['K'] = v1
            undo = lambda: iso.model.params.__setitem__('K', v0)
        elif kind == 'model/rmse':
            iso.model.rmse = v1
            undo = lambda: setattr(iso.model, 'rmse', v0)
        elif kind == 'model/range':
            iso.model.pressure_range = (v1, iso.model.pressure_range[1])
            undo = lambda: setattr(iso.model, 'pressure_range', (v0, iso.model.pressure_range[1]))
        second = iso.iso_id
        undo()
        third = iso.iso_id
        h.claim(f'C05/change/{kind}/identifier-changes', sym_not(same_id(h, first, second)))
        h.claim(f'C05/change/{kind}/identifier-restored-with-the-content', same_id(h, first, third))


def h_invisible(h, kind):
    """caches, reads and reserved attributes do not flow into the identifier"""
    isofix.quiet()
    T = h.real('T', pos=True)
    with patches(h), isofix.interp_patch(h):
        ps = isofix.increasing(h, ['p0', 'p1', 'p2'])
        ns = isofix.increasing(h, ['n0', 'n1', 'n2'])
        ads = stubs.fake_adsorbate(h, 'fakegas', 'f')
        iso = isofix.point_iso(h, ps, ns, ads=ads, T=T, branch=[0, 0, 0], properties={'user': 'u'})
        iso._adsorbate = type(ads)('fakegas-placeholder')
        first = iso.iso_id
        if kind == 'interpolator-caches':
            iso._adsorbate = ads
            iso.loading_at(ps[1])
            iso.pressure_at(ns[1], interpolation_type='nearest')
            iso._adsorbate = type(ads)('fakegas-placeholder')
        elif kind == 'accessors':
            iso.pressure(branch='ads', limits=(None, ps[1]))
            iso.loading(indexed=True)
            iso.to_dict()
            str(iso)
        elif kind == 'repeated-read':
            iso.iso_id
        second = iso.iso_id
        h.claim(f'C05/invisible/{kind}', same_id(h, first, second))
        h.claim(f'C05/invisible/{kind}/equality-operator-agrees', same_id(h, first, second) if h.sym else (iso == iso))


def h_routes(h, kind):
    """same content by different construction routes -> same identifier"""
    import pygaps
    isofix.quiet()
    T = h.real('T', pos=True)
    p = isofix.increasing(h, ['p0', 'p1', 'p2'])
    n = [h.real(f'n{i}', pos=True) for i in range(3)]
    a = [h.real(f'a{i}') for i in range(3)]
    b = [h.real(f'b{i}') for i in range(3)]
    common = dict(material='matM', adsorbate='fakegas-placeholder', temperature=300.0, user='u', **isofix.DEFAULT_UNITS)
    col = lambda v: isofix.column(h, v)
    regs = {}
    with patches(h):
        if kind == 'extra-column-order':
            d1 = pandas.DataFrame({'pressure': col(p), 'loading': col(n), 'branch': [0, 0, 1], 'alpha': col(a), 'beta': col(b)})
            d2 = pandas.DataFrame({'beta': col(b), 'loading': col(n), 'alpha': col(a), 'pressure': col(p), 'branch': [0, 0, 1]})
            i1 = pygaps.PointIsotherm(isotherm_data=d1, pressure_key='pressure', loading_key='loading', **common)
            i2 = pygaps.PointIsotherm(isotherm_data=d2, pressure_key='pressure', loading_key='loading', **common)
        elif kind == 'arrays-vs-table':
            i1 = pygaps.PointIsotherm(pressure=col(p), loading=col(n), branch=[0, 0, 1], **common)
            d2 = pandas.DataFrame({'pressure': col(p), 'loading': col(n), 'branch': [0, 0, 1]})
            i2 = pygaps.PointIsotherm(isotherm_data=d2, pressure_key='pressure', loading_key='loading', **common)
        elif kind == 'row-labels':
            d1 = pandas.DataFrame({'pressure': col(p), 'loading': col(n), 'branch': [0, 0, 1]})
            d2 = pandas.DataFrame({'pressure': col(p), 'loading': col(n), 'branch': [0, 0, 1]}, index=[10, 20, 30])
            i1 = pygaps.PointIsotherm(isotherm_data=d1, pressure_key='pressure', loading_key='loading', **common)
            i2 = pygaps.PointIsotherm(isotherm_data=d2, pressure_key='pressure', loading_key='loading', **common)
        elif kind == 'branch-in-table-vs-argument':
            d1 = pandas.DataFrame({'pressure': col(p), 'loading': col(n), 'alpha': col(a), 'Zeta': col(b), 'branch': [0, 0, 1]})
            d2 = pandas.DataFrame({'pressure': col(p), 'loading': col(n), 'alpha': col(a), 'Zeta': col(b)})
            i1 = pygaps.PointIsotherm(isotherm_data=d1, pressure_key='pressure', loading_key='loading', **common)
            i2 = pygaps.PointIsotherm(isotherm_data=d2, pressure_key='pressure', loading_key='loading', branch=[0, 0, 1], **common)
        elif kind == 'branch-bool-vs-int':
            i1 = pygaps.PointIsotherm(pressure=col(p), loading=col(n), branch=[False, False, True], **common)
            i2 = pygaps.PointIsotherm(pressure=col(p), loading=col(n), branch=[0, 0, 1], **common)
        elif kind == 'branch-word-vs-marks':
            i1 = pygaps.PointIsotherm(pressure=col(p), loading=col(n), branch='des', **common)
            i2 = pygaps.PointIsotherm(pressure=col(p), loading=col(n), branch=[1, 1, 1], **common)
        elif kind == 'lists-vs-arrays':
            i1 = pygaps.PointIsotherm(pressure=list(col(p)), loading=list(col(n)), **common)
            i2 = pygaps.PointIsotherm(pressure=col(p), loading=col(n), **common)
        elif kind == 'integer-vs-float-literals':
            # concrete literals: the data are not symbolic here, the frame recorder carries the dtype kind as pandas hashing sees it
            i1 = pygaps.PointIsotherm(pressure=[1, 2, 3], loading=[4, 5, 6], **common)
            i2 = pygaps.PointIsotherm(pressure=[1.0, 2.0, 3.0], loading=[4.0, 5.0, 6.0], **common)
        elif kind == 'from-isotherm-copy':
            i1 = pygaps.PointIsotherm(pressure=col(p), loading=col(n), branch=[0, 0, 1], **common)
            i2 = pygaps.PointIsotherm.from_isotherm(i1, isotherm_data=i1.data_raw.copy(), pressure_key='pressure', loading_key='loading')
        elif kind.startswith('json-round-trip'):
            import pygaps.parsing.json as pj
            marks = {'json-round-trip/des-marks': [0, 0, 1], 'json-round-trip/all-des': [1, 1, 1], 'json-round-trip/all-ads': [0, 0, 0]}[kind]
            if marks == [0, 0, 0]:
                h.assume((p[2] > p[1]) & (p[1] > p[0]))       # (outside the C06 finding: the maximum is the last point)
            i1 = pygaps.PointIsotherm(pressure=col(p), loading=col(n), branch=marks, **common)
            with (stubs.patched((pj, 'json', FakeJson)) if h.sym else stubs.patched()):
                i2 = pj.isotherm_from_json(pj.isotherm_to_json(i1))
        elif kind == 'metadata-key-order':
            from pygaps.core.baseisotherm import BaseIsotherm
            i1 = BaseIsotherm(**common, k1='a', k2='b')
            c2 = dict(reversed(list(common.items())))
            i2 = BaseIsotherm(k2='b', k1='a', **c2)
        elif kind == 'material-name-vs-object':
            from pygaps.core.baseisotherm import BaseIsotherm
            from pygaps.core.material import Material
            i1 = BaseIsotherm(**common)
            i2 = BaseIsotherm(**dict(common, material=Material('matM')))
        if not kind.startswith('json-round-trip'):       # (the importer calls float() on the temperature: kept concrete there)
            for i in (i1, i2):
                i._temperature = T
        h.claim(f'C05/routes/{kind}/same-identifier', same_id(h, i1.iso_id, i2.iso_id), regs)


def h_equality(h, kind):
    """== / != / membership on the REAL hashing path (md5, json, pandas hashing un-stubbed in both modes): concrete scenarios with
    values that a value-comparing shortcut or a rounding step would treat differently from the identifier"""
    import pygaps
    from pygaps.core.baseisotherm import BaseIsotherm
    from pygaps.core.modelisotherm import ModelIsotherm
    isofix.quiet()
    reach = h.real('reach', pos=True)
    common = dict(material='matM', adsorbate='fakegas-placeholder', temperature=300.0, **isofix.DEFAULT_UNITS)
    cid = f'C05/equality/{kind}'
    if kind == 'nan-metadata':
        i1 = BaseIsotherm(**common, note=float('nan'))
        i2 = BaseIsotherm(**common, note=float('nan'))
        same = True
    elif kind == 'tuple-vs-list-metadata':
        i1 = BaseIsotherm(**common, note=(1, 2))
        i2 = BaseIsotherm(**common, note=[1, 2])
        same = True
    elif kind == 'int-vs-float-metadata':
        i1 = BaseIsotherm(**common, note=1)
        i2 = BaseIsotherm(**common, note=2)
        same = False
    elif kind.startswith('model-parameter'):
        ka, kb = {'model-parameter-tiny': (1.5e-9, 4.5e-9), 'model-parameter-close': (0.123456789012, 0.123456789013)}[kind]
        out = []
        for kv in (ka, kb):
            m = get_model('Langmuir')
            m.params = {'K': kv, 'n_m': 2.0}
            m.rmse = 1e-11 if kv == ka else 2e-11
            out.append(ModelIsotherm(model=m, **common))
        i1, i2 = out
        same = False
    elif kind == 'data-cell-above-threshold':
        i1 = pygaps.PointIsotherm(pressure=[1.0, 2.0, 3.0], loading=[1.0, 2.0, 3.0], **common)
        i2 = pygaps.PointIsotherm(pressure=[1.0, 2.0, 3.0], loading=[1.0, 2.0 + 2e-8, 3.0], **common)
        same = False
    elif kind == 'data-cell-below-threshold':
        i1 = pygaps.PointIsotherm(pressure=[1.0, 2.0, 3.0], loading=[1.0, 2.0, 3.0], **common)
        i2 = pygaps.PointIsotherm(pressure=[1.0, 2.0, 3.0], loading=[1.0, 2.0 + 2e-10, 3.0], **common)
        same = True
    ids_same = i1.iso_id == i2.iso_id
    h.claim(f'{cid}/identifiers-{"equal" if same else "differ"}', ids_same == same, info=f'{i1.iso_id} {i2.iso_id}')
    h.claim(f'{cid}/==-agrees-with-the-identifier', (i1 == i2) == same and (i1 != i2) == (not same) and (i1 == i1))
    h.claim(f'{cid}/membership-agrees-with-the-identifier', (i2 in [i1]) == same and (i1 in [i2]) == same)
    h.claim(f'{cid}/reached', reach > 0)


def obligations(tier):
    obs = []
    kw = dict(funcs=FUNCS, stubs=['md5 / hash_pandas_object / json injective recorders (symbolic run only)'], timeout_s=30, validate=1)
    kinds = ['base/metadata-value', 'base/metadata-new-key', 'base/unit-label', 'base/temperature', 'base/material-property',
             'point/metadata-value', 'point/unit-label', 'point/temperature', 'point/data-cell', 'point/branch-mark', 'point/branch-bool',
             'model/metadata-value', 'model/parameter', 'model/rmse', 'model/range', 'model/temperature']
    for k in kinds:
        obs.append(Obligation(f'C05/change/{k}', h_changes, (k,), bounds='one in-place change; symbolic old and new value', **kw))
    for k in ('interpolator-caches', 'accessors', 'repeated-read'):
        obs.append(Obligation(f'C05/invisible/{k}', h_invisible, (k,), bounds='k=3 points', **kw))
    for k in ('extra-column-order', 'arrays-vs-table', 'row-labels', 'branch-in-table-vs-argument', 'branch-bool-vs-int', 'branch-word-vs-marks',
              'lists-vs-arrays', 'integer-vs-float-literals', 'from-isotherm-copy', 'metadata-key-order', 'material-name-vs-object',
              'json-round-trip/des-marks', 'json-round-trip/all-des', 'json-round-trip/all-ads'):
        obs.append(Obligation(f'C05/routes/{k}', h_routes, (k,), bounds='k=3 points', **kw))
    for k in ('nan-metadata', 'tuple-vs-list-metadata', 'int-vs-float-metadata', 'model-parameter-tiny', 'model-parameter-close',
              'data-cell-above-threshold', 'data-cell-below-threshold'):
        obs.append(Obligation(f'C05/equality/{k}', h_equality, (k,), bounds='concrete scenario on the un-stubbed hashing path', **kw))
    return obs
