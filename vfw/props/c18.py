"""C18 - kernel (DFT) fitting: objective, non-negativity, cumulative curve, limits, refusals (reduced claim)."""
import types

import numpy

from ..core import Obligation
from .. import symx, stubs, isofix

ASSUMPTIONS = [
    '_load_kernel replaced by a small symbolic kernel (3 pore widths x k <= 3 pressures, unknown non-negative entries; an interpolator '
    'may raise ValueError for an out-of-range pressure, forked); scipy.optimize.minimize replaced by a contract stub returning a symbolic '
    'x >= 0 (the bounds handed over are asserted to be (0, None)) or reporting failure; spline order 0 is real code',
    'NOT claimed: that SLSQP reaches the optimum ("reproduces the isotherm"), spline orders 1-3 (scipy splev), the shipped kernel file',
    'the kernel cache obligation runs the real _load_kernel on two small concrete files that share a base name (a concrete scenario, not a '
    'solver claim)',
]
FUNCS = ['pygaps.characterisation.psd_kernel:psd_dft_kernel_fit', 'pygaps.characterisation.psd_kernel:psd_dft',
         'pygaps.characterisation.psd_kernel:_load_kernel', 'pygaps.utilities.math_utilities:bspline']
WIDTHS = ['0.5', '1.0', '2.0']


def fake_kernel(h, k, may_raise):
    K = {w: [h.real(f'K_{i}_{j}', nonneg=True) for j in range(k)] for i, w in enumerate(WIDTHS)}
    raises = h.flag('kernel_out_of_range') if may_raise else False

    def mk(w):
        def f(p):
            if raises:
                raise symx.simulated(ValueError('A value in x_new is above the interpolation range.'))
            n = len(numpy.asarray(p, dtype=object).ravel())
            return isofix.column(h, K[w][:n])
        return f
    return {w: mk(w) for w in WIDTHS}, K, raises


class MinimizeStub:
    def __init__(self, h, n):
        self.h, self.n, self.calls = h, n, []

    def __call__(self, fun, x0, method=None, bounds=None, constraints=None, options=None, **kw):
        h = self.h
        c = types.SimpleNamespace(fun=fun, x0=x0, method=method, bounds=bounds, constraints=constraints, x=None)
        self.calls.append(c)
        if not h.flag('minimize_success'):
            return stubs.OptRes(success=False, message='stub: did not converge', x=x0)
        x = [h.real(f'x{i}') for i in range(self.n)]
        # the solver respects the bounds it was given
        for v, b in zip(x, bounds or [(None, None)] * self.n):
            if b[0] is not None:
                h.assume(v >= b[0])
            if b[1] is not None:
                h.assume(v <= b[1])
        c.x = x
        return stubs.OptRes(success=True, x=isofix.column(h, x), message='stub')


def h_fit(h, k, may_raise):
    import pygaps.characterisation.psd_kernel as pk
    from scipy import optimize
    from pygaps.utilities.exceptions import CalculationError
    kern, K, raises = fake_kernel(h, k, may_raise)
    ps = isofix.increasing(h, [f'p{i}' for i in range(k)])
    ns = [h.real(f'n{i}', nonneg=True) for i in range(k)]
    ms = MinimizeStub(h, len(WIDTHS))
    with stubs.patched((pk, '_load_kernel', lambda path: kern), (optimize, 'minimize', ms)):
        try:
            out = pk.psd_dft_kernel_fit(isofix.column(h, ps), isofix.column(h, ns), 'kernel-path', bspline_order=0)
            err = None
        except CalculationError as e:
            out, err = None, e
    cid = f'C18/fit/k={k}'
    if raises:
        h.claim(f'{cid}/pressure-outside-kernel-range=>CalculationError', err is not None and not ms.calls)
        return
    c = ms.calls[0]
    h.claim(f'{cid}/bounds-and-constraint-encode-x>=0', list(c.bounds) == [(0, None)] * len(WIDTHS) and c.method == 'SLSQP'
            and len(c.constraints) == 1 and c.constraints[0]['type'] == 'ineq')
    z = [h.real(f'z{i}') for i in range(len(WIDTHS))]
    gz = c.constraints[0]['fun'](isofix.column(h, z))
    okc = True
    for a, b in zip(list(gz), z):
        okc = okc & h.eq(a, b)
    h.claim(f'{cid}/constraint-function-is-x', okc)
    want = 0
    for j in range(k):
        s = 0
        for i, w in enumerate(WIDTHS):
            s = s + K[w][j] * z[i]
        want = want + (s - ns[j]) ** 2
    h.claim(f'{cid}/objective==sum_p(sum_w K_wp x_w - n_p)^2', h.close(c.fun(isofix.column(h, z)), want, 1e-12))
    h.claim(f'{cid}/start-vector-zero', [float(v) for v in c.x0] == [0.0] * len(WIDTHS))
    if c.x is None:
        h.claim(f'{cid}/optimiser-failure=>CalculationError', err is not None)
        return
    h.claim(f'{cid}/returns', err is None, info=repr(err)[:100])
    widths, dist, cum, kl = out
    x = c.x
    wv = [float(w) for w in WIDTHS]
    dw = [wv[0]] + [wv[i] - wv[i - 1] for i in range(1, len(wv))]
    okk = True
    for j in range(k):
        s = 0
        for i, w in enumerate(WIDTHS):
            s = s + K[w][j] * x[i]
        okk = okk & h.close(list(kl)[j], s, 1e-12)
    h.claim(f'{cid}/fitted-isotherm==kernel-weighted-sum-of-the-distribution', okk)
    okd = True
    run = 0
    prev = None
    for i in range(len(WIDTHS)):
        okd = okd & h.close(list(dist)[i], x[i] / dw[i], 1e-12) & (list(dist)[i] >= 0)
        run = run + list(dist)[i] * dw[i]
        okd = okd & h.close(list(cum)[i], run, 1e-12)
        if prev is not None:
            okd = okd & (list(cum)[i] >= prev)
        prev = list(cum)[i]
    h.claim(f'{cid}/distribution==x/dw>=0;cumulative==running-integral,non-decreasing', okd)
    h.claim(f'{cid}/pore-widths', [float(w) for w in widths] == wv)


def h_two_fits(h, variant):
    """two fits in one process (module-level caches must be invisible): the second fit - on a pressure table that differs from the
    first only below 1e-4 (micropore range), or on another kernel file evaluated at the same pressures - uses ITS kernel values"""
    import pygaps.characterisation.psd_kernel as pk
    from scipy import optimize
    P1 = [1.0e-5, 2.0e-5, 3.0e-5]
    P2 = [1.2e-5, 2.2e-5, 3.2e-5] if variant == 'nearby-pressures' else list(P1)
    paths = ('kernel-path', 'kernel-path') if variant == 'nearby-pressures' else ('dir-a/kernel.csv', 'dir-b/kernel.csv')
    k = 3
    K = {}

    def kern_for(path):
        def mk(i, w):
            def f(p):
                out = []
                for v in numpy.asarray(p, dtype=float).ravel():
                    key = (path, i, float(v))
                    if key not in K:
                        K[key] = h.real(f'K_{len(K)}', nonneg=True)
                    out.append(K[key])
                return isofix.column(h, out)
            return f
        return {w: mk(i, w) for i, w in enumerate(WIDTHS)}
    ns1 = [h.real(f'n{i}', nonneg=True) for i in range(k)]
    ns2 = [h.real(f'm{i}', nonneg=True) for i in range(k)]
    ms = MinimizeStub(h, len(WIDTHS))
    with stubs.patched((pk, '_load_kernel', kern_for), (optimize, 'minimize', ms)):
        for (P, ns, path) in ((P1, ns1, paths[0]), (P2, ns2, paths[1])):
            try:
                pk.psd_dft_kernel_fit(numpy.array(P), isofix.column(h, ns), path, bspline_order=0)
            except Exception:     # noqa: BLE001  (optimiser failure paths: the objective was handed over all the same)
                pass
    cid = f'C18/two-fits/{variant}'
    h.claim(f'{cid}/two-solver-calls', len(ms.calls) == 2)
    if len(ms.calls) != 2:
        return
    z = [h.real(f'z{i}') for i in range(len(WIDTHS))]
    c = ms.calls[1]
    evaluated = all((paths[1], i, float(P2[j])) in K for j in range(k) for i in range(len(WIDTHS)))
    h.claim(f'{cid}/second-fit-evaluates-its-own-kernel-at-its-own-pressures', evaluated)
    if not evaluated:
        return
    want = 0
    for j in range(k):
        sj = 0
        for i, w in enumerate(WIDTHS):
            sj = sj + K[(paths[1], i, float(P2[j]))] * z[i]
        want = want + (sj - ns2[j]) ** 2
    h.claim(f'{cid}/second-objective-uses-the-second-kernel-values', h.close(c.fun(isofix.column(h, z)), want, 1e-12))


def h_limits(h, lim):
    """psd_dft: only points inside the pressure limits reach the fit; fewer than 3 is refused"""
    import pygaps.characterisation.psd_kernel as pk
    from pygaps.utilities.exceptions import CalculationError
    from . import c15
    k = 4
    T, ads = isofix.sym_env(h)
    ps = isofix.increasing(h, [f'p{i}' for i in range(k)])
    h.assume(ps[-1] < 1)
    ns = isofix.increasing(h, [f'n{i}' for i in range(k)])
    iso = isofix.point_iso(h, ps, ns, units=dict(pressure_mode='relative', pressure_unit=None), ads=ads, T=T)
    lo = h.real('lo', pos=True) if lim[0] == 'sym' else None
    hi = h.real('hi', pos=True) if lim[1] == 'sym' else None
    rec = {}

    def fit(pressure, loading, kernel_path, bspline_order):
        rec['p'], rec['n'] = list(pressure), list(loading)
        return (numpy.ones(2), numpy.ones(2), numpy.ones(2), numpy.ones(len(rec['p'])))
    with stubs.patched((pk, 'psd_dft_kernel_fit', fit)):
        try:
            res = pk.psd_dft(iso, branch='ads', p_limits=(lo, hi))
            err = None
        except CalculationError as e:
            res, err = None, e
    cid = f'C18/limits/{lim}'
    if err is not None:
        cnt = 0
        for p in ps:
            s = True
            if lo is not None:
                s = s & (p > lo)
            if hi is not None:
                s = s & (p < hi)
            cnt += 1 if bool(s) else 0
        h.claim(f'{cid}/refused-only-below-3-points', cnt < 3)
        return
    idx = [[i for i, p in enumerate(ps) if u is p or (not h.sym and u == p)][0] for u in rec['p']]
    h.claim(f'{cid}/contiguous,>=3', idx == list(range(idx[0], idx[0] + len(idx))) and len(idx) >= 3)
    ok = True
    for i, p in enumerate(ps):
        s_in, s_out = True, False
        if lo is not None:
            s_in, s_out = s_in & (p > lo), s_out | (p < lo)
        if hi is not None:
            s_in, s_out = s_in & (p < hi), s_out | (p > hi)
        if i in idx:
            ok = ok & (~s_out if not isinstance(s_out, bool) else (not s_out))
        else:
            ok = ok & (~s_in if not isinstance(s_in, bool) else (not s_in))
    h.claim(f'{cid}/only-points-inside-the-limits-reach-the-fit', ok)
    okn = True
    for j, i in enumerate(idx):
        okn = okn & h.eq(rec['n'][j], ns[i])
    h.claim(f'{cid}/loadings-of-the-same-points', okn)
    h.claim(f'{cid}/limits-reported', tuple(res['limits']) == (idx[0], idx[-1]))


def h_kernel_cache(h):
    """two kernel files with the same base name in different directories are different kernels (concrete scenario)"""
    import os
    import tempfile
    import shutil
    import pygaps.characterisation.psd_kernel as pk
    dummy = h.real('reach', pos=True)
    d = tempfile.mkdtemp(prefix='vfw_kernel_')
    try:
        paths = []
        for sub, scale in (('a', 1.0), ('b', 3.0)):
            os.makedirs(os.path.join(d, sub))
            p = os.path.join(d, sub, 'kernel.csv')
            with open(p, 'w') as f:
                # (pore widths in increasing numeric order; '10.0' sorts before '2.5' as a string)
                f.write('p,0.5,1.0,2.5,10.0\n')
                for i, pr in enumerate([0.1, 0.2, 0.4, 0.6, 0.8]):
                    f.write(f'{pr},{scale * (i + 1)},{scale * 2 * (i + 1)},{scale * 3 * (i + 1)},{scale * 4 * (i + 1)}\n')
            paths.append(p)
        ka = pk._load_kernel(paths[0])
        kb = pk._load_kernel(paths[1])
        va = float(ka['0.5'](0.4))
        vb = float(kb['0.5'](0.4))
        h.claim('C18/kernel-cache/files-with-the-same-base-name-are-distinct', abs(va - 3.0) < 1e-9 and abs(vb - 9.0) < 1e-9, info=f'{va} {vb}')
        try:
            kb['0.5'](0.95)
            refused = False
        except ValueError:
            refused = True
        h.claim('C18/kernel-cache/interpolator-refuses-pressures-outside-the-kernel-range', refused)
        widths = [float(w) for w in ka.keys()]
        h.claim('C18/kernel-cache/pore-widths-in-the-order-of-the-file(increasing)', widths == [0.5, 1.0, 2.5, 10.0], info=str(widths))
        h.claim('C18/kernel-cache/each-width-keeps-its-own-column', abs(float(ka['10.0'](0.4)) - 12.0) < 1e-9 and abs(float(ka['2.5'](0.4)) - 9.0) < 1e-9)
        for p in paths:
            pk._LOADED.pop(p, None)
    finally:
        shutil.rmtree(d, ignore_errors=True)
    h.claim('C18/kernel-cache/reached', dummy > 0)


def obligations(tier):
    obs = []
    kw = dict(funcs=FUNCS, stubs=['symbolic kernel', 'optimize.minimize contract stub'], timeout_s=60 if tier == 'quick' else 600, validate=1)
    for k in ((2, 3) if tier == 'quick' else (2, 3, 4)):
        obs.append(Obligation(f'C18/fit/k={k}', h_fit, (k, True), bounds=f'3 pore widths x {k} pressures; spline order 0', **kw))
    for lim in [('sym', 'sym'), ('sym', None), (None, 'sym'), (None, None)]:
        obs.append(Obligation(f'C18/limits/{lim}', h_limits, (lim,), bounds='k=4; symbolic limits', **kw))
    for v in ('nearby-pressures', 'other-kernel-file'):
        obs.append(Obligation(f'C18/two-fits/{v}', h_two_fits, (v,), bounds='3 widths x 3 concrete pressures; symbolic kernel entries and loadings', **kw))
    obs.append(Obligation('C18/kernel-cache', h_kernel_cache, (), bounds='two concrete kernel files', **kw))
    return obs
