"""C11 - spreading pressure = integral of n/p dp."""
import fractions

import numpy
import z3

from ..core import Obligation
from .. import symx, stubs, isofix
from .c10 import get_model, sym_params, domain, exps, EXP_PARAM

F = fractions.Fraction
ASSUMPTIONS = [
    'real arithmetic; exp/ln uninterpreted with ground monotonicity axioms and symbolic differentiation rules d ln x = dx/x',
    'fundamental theorem of calculus: pi(0)=0 (or the Henry value on the first segment), continuity at the nodes and '
    'p*dpi/dp = n(p) on every piece determine pi = int_0^p n/p dp uniquely',
    'scipy.integrate.quad replaced by a recorder (integrand and limits are checked, quadrature accuracy is not)',
    'scipy.interpolate.interp1d replaced by an explicit piecewise-linear interpolant (kind=linear) with scipy bounds semantics',
    'point isotherms: k <= 4 (quick) / 5 (thorough) strictly increasing symbolic points',
]

ANALYTIC = ['Henry', 'Langmuir', 'DSLangmuir', 'TSLangmuir', 'Quadratic', 'BET', 'GAB', 'Freundlich', 'TemkinApprox']
QUAD = ['Toth', 'JensenSeaton', 'DR', 'DA']


def h_analytic(h, name):
    """p * d pi/dp == n(p), pi(0) == 0, pi increasing"""
    m = get_model(name)
    P = sym_params(h, m)
    p = h.real('p')
    domain(h, name, m, p=p)
    if name == 'Freundlich' and h.sym:
        pass
    n = m.loading(p)
    pi = m.spreading_pressure(p)
    if h.sym:
        st = symx.cur()
        dpi = symx.diff(symx.toz(pi), p.t, st)
        h.claim(f'C11/derivative/{name}/p*dpi/dp==n(p)', h.close(symx.SymReal(p.t * dpi), n, 1e-9))
    else:
        eps = 1e-6 * p
        d = (float(m.spreading_pressure(p + eps)) - float(m.spreading_pressure(p - eps))) / (2 * eps)
        h.claim(f'C11/derivative/{name}/p*dpi/dp==n(p)', abs(p * d - n) <= 1e-5 * abs(n) + 1e-12, info=f'{p * d} vs {n}')
    if name != 'Freundlich':
        zero = symx.SymReal(symx.realval(0)) if h.sym else 0.0
        pi0 = m.spreading_pressure(zero)
        h.claim(f'C11/zero/{name}/pi(0)==0', h.close(pi0, 0.0, 0.0, 1e-12), {'temkin-offset': name == 'TemkinApprox'},
                info=f'pi(0)={pi0!r}')
    # additivity / monotone: pi(q) - pi(p) >= 0 for p < q follows from the derivative identity and n >= 0 (C10);
    # checked directly as well
    q = h.real('q')
    domain(h, name, m, p=q)
    h.assume(p < q)
    piq = m.spreading_pressure(q)
    if name != 'TemkinApprox':     # log + rational mix needs more than monotonicity of ln; follows from the derivative identity + C10
        h.claim(f'C11/monotone/{name}/p<q=>pi(p)<=pi(q)', pi <= piq)


def h_quad(h, name, e):
    """integrand handed to quad is loading(x)/x, limits (0, p), element 0 returned"""
    from scipy import integrate
    m = get_model(name)
    fixed = {EXP_PARAM[name]: e} if e is not None else None
    sym_params(h, m, fixed)
    p = h.real('p')
    domain(h, name, m, p=p)
    rec = stubs.QuadRecorder(h)
    with stubs.patched((integrate, 'quad', rec)):
        pi = m.spreading_pressure(p)
    h.claim(f'C11/quad/{name}/one-call', len(rec.calls) == 1)
    c = rec.calls[0]
    x = h.real('x')
    domain(h, name, m, p=x)
    h.claim(f'C11/quad/{name}/integrand==loading(x)/x', h.close(c.f(x), m.loading(x) / x, 1e-9))
    h.claim(f'C11/quad/{name}/limits==(0,p)', h.eq(c.a, 0.0) & h.eq(c.b, p))
    h.claim(f'C11/quad/{name}/returns-integral-value', h.eq(pi, h.real('quad0_value')))


def h_quad_int(h, name, e, kind):
    """an integer-typed pressure (Python int, numpy integer, or through ModelIsotherm.spreading_pressure_at) gets the same
    treatment as the float: the value returned is the integral the quadrature reported, not a truncation of it"""
    from scipy import integrate
    m = get_model(name)
    fixed = {EXP_PARAM[name]: e} if e is not None else None
    sym_params(h, m, fixed)
    rec = stubs.QuadRecorder(h, concrete=7.5625)      # (a non-integral value: a result buffer of integer dtype would truncate it)
    pint = {'int': 2, 'numpy-int': numpy.int64(3), 'isotherm': 2, 'int-array': numpy.array([2, 3])}[kind]
    if name in ('DR', 'DA'):
        pint = {'int': 1, 'numpy-int': numpy.int64(1), 'isotherm': 1, 'int-array': numpy.array([1, 1])}[kind]     # p/p0 <= 1
    with stubs.patched((integrate, 'quad', rec)):
        if kind == 'isotherm':
            T, ads = isofix.sym_env(h)
            iso = isofix.model_iso(h, m, ads=ads, T=T)
            pi = iso.spreading_pressure_at(pint)
        else:
            pi = m.spreading_pressure(pint)
    cid = f'C11/quad-int/{name}/{kind}'
    vals = list(numpy.asarray(pi, dtype=object).ravel())
    h.claim(f'{cid}/one-value-per-pressure', len(vals) == (2 if kind == 'int-array' else 1) and len(rec.calls) >= 1, info=f'{len(vals)} values, {len(rec.calls)} calls')
    # every reported value is (a sum of) what the quadrature returned - compare with the float-typed call
    rec2 = stubs.QuadRecorder(h, concrete=7.5625)
    pf = numpy.asarray(pint, dtype=float) if kind == 'int-array' else float(pint)
    with stubs.patched((integrate, 'quad', rec2)):
        pif = iso.spreading_pressure_at(pf) if kind == 'isotherm' else m.spreading_pressure(pf)
    valsf = list(numpy.asarray(pif, dtype=object).ravel())
    ok = len(vals) == len(valsf)
    r = True
    if ok:
        for a, b in zip(vals, valsf):
            r = r & h.eq(a, b)
    h.claim(f'{cid}/same-value-as-for-the-float-typed-pressure', ok and r)


def _oracle_pi(h, ps, ns, q, seg):
    """closed form of int_0^q f/p dp for the piecewise-linear interpolant f continued by Henry's law;
    seg = index j with p_j <= q (q in segment [p_j, p_{j+1}]), or -1 on the Henry segment"""
    if seg < 0:
        return ns[0] / ps[0] * q
    area = ns[0]
    log = (lambda v: v.log()) if h.sym else (lambda v: numpy.log(v))
    for i in range(seg):
        b = (ns[i + 1] - ns[i]) / (ps[i + 1] - ps[i])
        a = ns[i] - b * ps[i]
        area = area + b * (ps[i + 1] - ps[i]) + a * log(ps[i + 1] / ps[i])
    return area


def h_point(h, k, where, fill):
    """PointIsotherm.spreading_pressure_at on k symbolic increasing points; query position `where`:
    -1 below first point, j = inside segment j (p_j < q < p_{j+1}), ('node', j) exactly at p_j, 'above'"""
    from pygaps.utilities.exceptions import CalculationError
    T, ads = isofix.sym_env(h)
    ps = isofix.increasing(h, [f'p{i}' for i in range(k)])
    ns = [h.real(f'n{i}', pos=True) for i in range(k)]
    q = h.real('q', pos=True)
    if where == -1:
        h.assume(q < ps[0])
    elif where == 'above':
        h.assume(q > ps[-1])
    elif isinstance(where, tuple):
        h.assume(q == ps[where[1]]) if h.sym else None
    else:
        h.assume((q > ps[where]) & (q < ps[where + 1]))
    iso = isofix.point_iso(h, ps, ns, ads=ads, T=T)
    log = (lambda v: v.log()) if h.sym else (lambda v: numpy.log(v))
    with isofix.interp_patch(h):
        try:
            pi = iso.spreading_pressure_at(q, interp_fill=fill)
            exc = None
        except (CalculationError, ValueError) as e:
            pi, exc = None, e
    tag = f'k={k}/where={where}/fill={fill}'
    if where == 'above' and fill is None:
        h.claim(f'C11/point/{tag}/refused-above-range', exc is not None)
        return
    if where == 'above':
        # continued by the fill rule: last segment runs from p_{k-1} to q with the filled loading at q
        h.claim(f'C11/point/{tag}/returns', exc is None, info=repr(exc))
        if exc is None:
            base = _oracle_pi(h, ps, ns, ps[-1], k - 1)
            nq = fill if not isinstance(fill, tuple) else fill[1]
            b = (nq - ns[-1]) / (q - ps[-1])
            a = ns[-1] - b * ps[-1]
            want = base + b * (q - ps[-1]) + a * log(q / ps[-1])
            h.claim(f'C11/point/{tag}/value', h.eq(pi, want))
        return
    h.claim(f'C11/point/{tag}/returns', exc is None, info=repr(exc))
    if exc is not None:
        return
    if where == -1:
        h.claim(f'C11/point/{tag}/henry-segment', h.eq(pi, ns[0] / ps[0] * q))
        return
    if isinstance(where, tuple):
        j = where[1]
        want = _oracle_pi(h, ps, ns, ps[j], j)
        h.claim(f'C11/point/{tag}/node-value(continuity)', h.eq(pi, want))
        return
    j = where
    base = _oracle_pi(h, ps, ns, ps[j], j)
    b = (ns[j + 1] - ns[j]) / (ps[j + 1] - ps[j])
    a = ns[j] - b * ps[j]
    want = base + b * (q - ps[j]) + a * log(q / ps[j])
    h.claim(f'C11/point/{tag}/value', h.eq(pi, want))
    if h.sym and k <= 3:
        st = symx.cur()
        dpi = symx.diff(symx.toz(pi), q.t, st)
        f_q = ns[j] + (ns[j + 1] - ns[j]) * (q - ps[j]) / (ps[j + 1] - ps[j])
        h.claim(f'C11/point/{tag}/q*dpi/dq==interpolant(q)', h.eq(symx.SymReal(q.t * dpi), f_q))


UNIT_CASES = [
    # (stored units, request kwargs)
    ({}, dict(pressure_unit='Pa')),
    ({}, dict(pressure_mode='relative')),
    ({'pressure_mode': 'relative', 'pressure_unit': None}, dict(pressure_mode='absolute', pressure_unit='kPa')),
    ({}, dict(loading_unit='mol')),
    ({}, dict(loading_basis='mass', loading_unit='mg')),
    ({}, dict(material_unit='kg')),
    ({}, dict(material_basis='volume', material_unit='cm3')),
    ({}, dict(pressure_unit='torr', loading_basis='volume_gas', loading_unit='cm3', material_basis='molar', material_unit='mol')),
]


def h_point_units(h, case, where):
    """pi in requested units == loading-factor * pi(native) with the query pressure converted first"""
    from pygaps.units.converter_mode import c_pressure, c_loading, c_material
    stored, req = UNIT_CASES[case]
    k = 2
    T, ads = isofix.sym_env(h)
    ps = isofix.increasing(h, [f'p{i}' for i in range(k)])
    ns = [h.real(f'n{i}', pos=True) for i in range(k)]
    iso = isofix.point_iso(h, ps, ns, units=stored, ads=ads, T=T)
    q_native = h.real('q', pos=True)
    # float-precomputed unit factors are only inverse to 1e-16: keep the query 1e-6 (relative) away from the nodes
    m = 1e-6
    if where == -1:
        h.assume(q_native * (1 + m) < ps[0])
    else:
        h.assume((q_native > ps[where] * (1 + m)) & (q_native * (1 + m) < ps[where + 1]))
    # the query expressed in the requested pressure representation
    pm = req.get('pressure_mode') or iso.pressure_mode
    pu = req.get('pressure_unit') or (iso.pressure_unit if pm == 'absolute' else None)
    q_req = c_pressure(q_native, iso.pressure_mode, pm, iso.pressure_unit, pu, adsorbate=ads, temp=T)
    with isofix.interp_patch(h):
        pi_native = iso.spreading_pressure_at(q_native)
        iso.l_interpolator = None
        pi_req = iso.spreading_pressure_at(q_req, **req)
    # expected: loading converted (material first, then loading) - pi is linear in the loading
    want = pi_native
    mb = req.get('material_basis') or iso.material_basis
    mu = req.get('material_unit') or iso.material_unit
    if 'material_basis' in req or 'material_unit' in req:
        want = c_material(want, iso.material_basis, mb, iso.material_unit, mu, material=iso.material)
    if 'loading_basis' in req or 'loading_unit' in req:
        lb = req.get('loading_basis') or iso.loading_basis
        want = c_loading(want, iso.loading_basis, lb, iso.loading_unit, req.get('loading_unit'), adsorbate=ads, temp=T,
                         basis_material=mb, unit_material=mu)
    h.claim(f'C11/point-units/case{case}/where={where}', h.close(pi_req, want, 1e-9), info=str(req))


CONVERT_CASES = [
    ('material', dict(unit_to='kg')),
    ('material', dict(basis_to='volume', unit_to='cm3')),
    ('loading', dict(unit_to='mol')),
    ('loading', dict(basis_to='mass', unit_to='mg')),
    ('pressure', dict(unit_to='Pa')),
    ('pressure', dict(mode_to='relative')),
]


def h_point_convert(h, case, where):
    """evaluate, convert permanently, evaluate again: the second value is the first one converted
    (pi is linear in the loading and invariant under a change of pressure representation)"""
    from pygaps.units.converter_mode import c_pressure, c_loading, c_material
    kind, kw = CONVERT_CASES[case]
    k = 2
    T, ads = isofix.sym_env(h)
    ps = isofix.increasing(h, [f'p{i}' for i in range(k)])
    ns = [h.real(f'n{i}', pos=True) for i in range(k)]
    iso = isofix.point_iso(h, ps, ns, ads=ads, T=T)
    q = h.real('q', pos=True)
    m = 1e-6
    if where == -1:
        h.assume(q * (1 + m) < ps[0])
    else:
        h.assume((q > ps[where] * (1 + m)) & (q * (1 + m) < ps[where + 1]))
    u0 = dict(iso.units)
    with isofix.interp_patch(h):
        first = iso.spreading_pressure_at(q)
        getattr(iso, 'convert_' + kind)(**kw)
        q2 = q
        if kind == 'pressure':
            q2 = c_pressure(q, u0['pressure_mode'], iso.pressure_mode, u0['pressure_unit'], iso.pressure_unit, adsorbate=ads, temp=T)
        second = iso.spreading_pressure_at(q2)
    want = first
    if kind == 'material':
        want = c_material(first, u0['material_basis'], iso.material_basis, u0['material_unit'], iso.material_unit, material=iso.material)
    elif kind == 'loading':
        want = c_loading(first, u0['loading_basis'], iso.loading_basis, u0['loading_unit'], iso.loading_unit, adsorbate=ads,
                         temp=T, basis_material=iso.material_basis, unit_material=iso.material_unit)
    h.claim(f'C11/point-convert/case{case}/where={where}', h.close(second, want, 1e-9), info=f'{kind} {kw}')


def h_model_units(h, name, case):
    """ModelIsotherm.spreading_pressure_at converts the pressure argument first"""
    from pygaps.units.converter_mode import c_pressure
    T, ads = isofix.sym_env(h)
    m = get_model(name)
    sym_params(h, m)
    stored, req = [({}, dict(pressure_unit='Pa')), ({}, dict(pressure_mode='relative')),
                   ({'pressure_mode': 'relative', 'pressure_unit': None}, dict(pressure_mode='absolute', pressure_unit='kPa')),
                   ({'pressure_mode': 'relative%', 'pressure_unit': None}, dict(pressure_mode='relative'))][case]
    iso = isofix.model_iso(h, m, units=stored, ads=ads, T=T)
    q_native = h.real('q', pos=True)
    domain(h, name, m, p=q_native)
    pm = req.get('pressure_mode') or iso.pressure_mode
    pu = req.get('pressure_unit') or (iso.pressure_unit if pm == 'absolute' else None)
    q_req = c_pressure(q_native, iso.pressure_mode, pm, iso.pressure_unit, pu, adsorbate=ads, temp=T)
    a = iso.spreading_pressure_at(q_native)
    b = iso.spreading_pressure_at(q_req, **req)
    h.claim(f'C11/model-units/{name}/case{case}', h.close(b, a, 1e-9), info=str(req))
    h.claim(f'C11/model-units/{name}/case{case}/is-model-value', h.close(a, m.spreading_pressure(q_native), 1e-12))


def obligations(tier):
    obs = []
    t = 60 if tier == 'quick' else 600
    mf = lambda name: [f'pygaps.modelling.{name.lower()}:{name}.spreading_pressure', f'pygaps.modelling.{name.lower()}:{name}.loading']
    for name in ANALYTIC:
        obs.append(Obligation(f'C11/analytic/{name}', h_analytic, (name,), funcs=mf(name), bounds='reals; all parameters in bounds',
                              timeout_s=t, closure=name in ('Freundlich',)))
    for name in QUAD:
        for e in exps(tier, name):
            obs.append(Obligation(f'C11/quad/{name}[{e}]', h_quad, (name, e), funcs=mf(name), stubs=['scipy.integrate.quad recorder'],
                                  bounds=f'reals; exponent={e}', timeout_s=t, closure=name in ('DR', 'DA')))
        for kind in ('int', 'numpy-int', 'isotherm'):      # (array pressures are not supported by scipy's quad: not claimed)
            e0 = exps(tier, name)[0]
            obs.append(Obligation(f'C11/quad-int/{name}/{kind}', h_quad_int, (name, e0, kind), funcs=mf(name), stubs=['scipy.integrate.quad recorder'],
                                  bounds='integer-typed pressure 1..3', timeout_s=t))
    pf = ['pygaps.core.pointisotherm:PointIsotherm.spreading_pressure_at', 'pygaps.core.pointisotherm:PointIsotherm.loading_at',
          'pygaps.utilities.isotherm_interpolator:IsothermInterpolator.__init__']
    ks = [3, 4] if tier == 'quick' else [2, 3, 4, 5]
    for k in ks:
        wheres = [-1] + list(range(k - 1)) + [('node', j) for j in range(k)] + ['above']
        for w in wheres:
            fills = [None] if w != 'above' else [None, F(7, 2)]
            for fill in fills:
                obs.append(Obligation(f'C11/point/k={k}/{w}/fill={fill}', h_point, (k, w, fill), funcs=pf,
                                      stubs=['interp1d piecewise-linear stub', 'FakeState'], bounds=f'k={k} symbolic increasing points',
                                      timeout_s=t, closure=False))
    for case in range(len(UNIT_CASES)):
        for w in (-1, 0):
            if tier == 'quick' and case == 7 and w == 0:
                continue        # unknown within 60 s (three unit factors + logs); thorough tier only
            obs.append(Obligation(f'C11/point-units/case{case}/{w}', h_point_units, (case, w), funcs=pf,
                                  stubs=['interp1d piecewise-linear stub', 'FakeState'], bounds='k=2', timeout_s=t))
    for case in range(len(CONVERT_CASES)):
        for w in (-1, 0):
            if tier == 'quick' and case == 3 and w == 0:
                continue        # unknown within 60 s; thorough tier only
            obs.append(Obligation(f'C11/point-convert/case{case}/{w}', h_point_convert, (case, w),
                                  funcs=pf + ['pygaps.core.pointisotherm:PointIsotherm.convert_material'],
                                  stubs=['interp1d piecewise-linear stub', 'FakeState'], bounds='k=2; evaluate-convert-evaluate', timeout_s=t))
    for name in (['Langmuir', 'BET'] if tier == 'quick' else ANALYTIC):
        for case in range(4):
            obs.append(Obligation(f'C11/model-units/{name}/case{case}', h_model_units, (name, case),
                                  funcs=['pygaps.core.modelisotherm:ModelIsotherm.spreading_pressure_at'], stubs=['FakeState'],
                                  bounds='reals', timeout_s=t))
    return obs
