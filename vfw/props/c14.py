"""C14 - linearised characterisation methods recover the generating parameters (lemma decomposition)."""
import fractions

import numpy

from ..core import Obligation
from .. import symx, stubs, isofix

F = fractions.Fraction
ASSUMPTIONS = [
    'scipy.stats.linregress replaced by a contract stub: it records (x, y) and returns fresh (slope, intercept, r); where recovery '
    'is claimed the stub assumes y_i = intercept + slope*x_i for every point handed over (least squares on exactly linear data '
    'with two distinct abscissae returns that line - the one standard lemma); correlation coefficient values are not claimed',
    'k <= 5 symbolic strictly increasing relative pressures; real arithmetic; ln/exp uninterpreted with ground axioms',
    'DA exponent search (minimize_scalar) replaced by a stub returning exponent 2; automatic t/alpha-s section finder out of scope',
    'points exactly on a limit may be selected or not',
]
FUNCS = ['pygaps.characterisation.area_bet:area_BET_raw', 'pygaps.characterisation.area_bet:bet_transform',
         'pygaps.characterisation.area_bet:bet_parameters', 'pygaps.characterisation.area_bet:roq_transform',
         'pygaps.characterisation.area_lang:area_langmuir_raw', 'pygaps.characterisation.area_lang:langmuir_parameters',
         'pygaps.characterisation.t_plots:t_plot_raw', 'pygaps.characterisation.t_plots:t_plot_parameters',
         'pygaps.characterisation.alphas_plots:alpha_s_raw', 'pygaps.characterisation.alphas_plots:alpha_s_plot_parameters',
         'pygaps.characterisation.dr_da_plots:da_plot_raw', 'pygaps.characterisation.dr_da_plots:log_v_adj',
         'pygaps.characterisation.dr_da_plots:log_p_exp']
AVOGADRO = 6.02214076e23
R_GAS = 8.314462618


class LinregressResult(tuple):
    """scipy's LinregressResult: unpacks to 5 values, carries 6 named fields"""

    def __new__(cls, slope, intercept, rvalue, pvalue, stderr, intercept_stderr):
        o = super().__new__(cls, (slope, intercept, rvalue, pvalue, stderr))
        o.slope, o.intercept, o.rvalue, o.pvalue, o.stderr, o.intercept_stderr = slope, intercept, rvalue, pvalue, stderr, intercept_stderr
        return o


class LinregressStub:
    """scipy.stats.linregress contract: one record per regression (per row for a batched call with axis=-1); returns fresh
    slope / intercept / r (|r| <= 1) / p / stderr, under the exact-line lemma where asked"""

    def __init__(self, h, exact=True, name='lr'):
        self.h = h
        self.exact = exact
        self.name = name
        self.calls = []

    def _one(self, xs, ys):
        h = self.h
        n = len(self.calls)
        slope = h.real(f'{self.name}{n}_slope')
        icpt = h.real(f'{self.name}{n}_intercept')
        r = h.real(f'{self.name}{n}_r')
        h.assume((r >= -1) & (r <= 1))
        h.assume((slope != 0) & (icpt != 0))       # a regression through the origin / a flat line is a degenerate outcome
        if self.exact and h.sym:
            for a, b in zip(xs, ys):
                h.assume(h.eq(b, icpt + slope * a))
        if not h.sym:      # scipy returns numpy floats (division by zero -> inf, not ZeroDivisionError)
            slope, icpt, r = numpy.float64(slope), numpy.float64(icpt), numpy.float64(r)
        self.calls.append((xs, ys, slope, icpt, r))
        return slope, icpt, r, h.real(f'{self.name}{n}_p'), h.real(f'{self.name}{n}_stderr'), h.real(f'{self.name}{n}_intercept_stderr')

    def __call__(self, x, y=None, alternative='two-sided', axis=0, **kw):
        if kw or alternative != 'two-sided':
            symx.STUB_GAPS.append(f'linregress({sorted(kw)}, alternative={alternative!r})')
        xa = numpy.asarray(x, dtype=object)
        ya = numpy.asarray(y, dtype=object)
        if ya.ndim <= 1:
            return LinregressResult(*self._one(list(xa.ravel()), list(ya.ravel())))
        # batched: regressions along the last axis, x broadcast against the rows of y
        if axis not in (-1, ya.ndim - 1) or ya.ndim != 2:
            symx.STUB_GAPS.append(f'linregress(axis={axis}) on {ya.ndim}-d data')
            raise symx.simulated(ValueError('stub: unsupported batched regression'))
        cols = [[] for _ in range(6)]
        for i in range(ya.shape[0]):
            xrow = xa if xa.ndim == 1 else xa[i]
            for c, v in zip(cols, self._one(list(numpy.asarray(xrow, dtype=object).ravel()), list(ya[i]))):
                c.append(v)
        arrs = [isofix.column(self.h, c) for c in cols]
        return LinregressResult(*arrs)


def pressures(h, k):
    ps = isofix.increasing(h, [f'p{i}' for i in range(k)])
    h.assume(ps[-1] < 1)
    return ps


def inside_claims(h, xs, used_idx, lo, hi):
    """every point strictly inside the limits is used, no point strictly outside"""
    ok = True
    for i, x in enumerate(xs):
        s_in, s_out = True, False
        if lo is not None:
            s_in = s_in & (x > lo)
            s_out = s_out | (x < lo)
        if hi is not None:
            s_in = s_in & (x < hi)
            s_out = s_out | (x > hi)
        if i in used_idx:
            ok = ok & (~s_out if not isinstance(s_out, bool) else (not s_out))
        else:
            ok = ok & (~s_in if not isinstance(s_in, bool) else (not s_in))
    return ok


def count_strictly_inside(xs, lo, hi):
    c = 0
    for x in xs:
        s = True
        if lo is not None:
            s = s & (x > lo)
        if hi is not None:
            s = s & (x < hi)
        c += 1 if bool(s) else 0
    return c


def _idx_of(h, used, xs):
    out = []
    for u in used:
        out.append([i for i, x in enumerate(xs) if u is x or (not h.sym and u == x)][0])
    return out


# ------------------------------------------------------------------ BET
def bet_eq(p, nm, C):
    return nm * C * p / ((1 - p) * (1 - p + C * p))


def h_bet_lemmas(h):
    import pygaps.characterisation.area_bet as ab
    p = h.real('p', pos=True)
    h.assume(p < 1)
    nm = h.real('nm', pos=True)
    C = h.real('C', pos=True)
    sigma = h.real('sigma', pos=True)
    n = bet_eq(p, nm, C)
    h.claim('C14/BET/L1/transform-linearises', h.eq(ab.bet_transform(p, n), 1 / (nm * C) + (C - 1) / (nm * C) * p))
    h.claim('C14/BET/L1/rouquerol-transform', h.eq(ab.roq_transform(p, n), n * (1 - p)))
    slope, icpt = (C - 1) / (nm * C), 1 / (nm * C)
    n_m, p_m, c_c, area = ab.bet_parameters(slope, icpt, sigma)
    h.claim('C14/BET/L2/n_monolayer', h.eq(n_m, nm))
    h.claim('C14/BET/L2/C', h.eq(c_c, C))
    sq = C.sqrt() if h.sym else C ** 0.5
    h.claim('C14/BET/L2/p_monolayer==1/(sqrt(C)+1)', h.close(p_m, 1 / (sq + 1), 1e-12))
    h.claim('C14/BET/L2/area==nm*sigma*N_A*1e-18', h.close(area, nm * sigma * AVOGADRO * 1e-18, 1e-9))


def h_bet_window(h, k, mode):
    """window selection (manual limits / Rouquerol), refusal below 3 points, glue to the regression"""
    import pygaps.characterisation.area_bet as ab
    from pygaps.utilities.exceptions import CalculationError
    ps = pressures(h, k)
    ns = [h.real(f'n{i}', pos=True) for i in range(k)]
    sigma = h.real('sigma', pos=True)
    lo = hi = None
    if mode == 'manual':
        lo, hi = h.real('lo', pos=True), h.real('hi', pos=True)
        h.assume(lo < hi)
        limits = (lo, hi)
    elif mode == 'lo-only':
        lo = h.real('lo', pos=True)
        limits = (lo, None)
    elif mode == 'hi-only':
        hi = h.real('hi', pos=True)
        limits = (None, hi)
    else:
        limits = None
    lr = LinregressStub(h, exact=False)
    from scipy import stats
    with stubs.patched((stats, 'linregress', lr)):
        try:
            res = ab.area_BET_raw(isofix.column(h, ps), isofix.column(h, ns), sigma, limits)
            err = None
        except CalculationError as e:
            res, err = None, e
    cid = f'C14/BET/window/k={k}/{mode}'
    if mode != 'auto':
        if err is not None:
            h.claim(f'{cid}/refused-only-below-3-points', count_strictly_inside(ps, lo, hi) < 3, info=str(err))
            return
        xs, ys, slope, icpt, r = lr.calls[0]
        idx = _idx_of(h, xs, ps)
        h.claim(f'{cid}/contiguous,>=3', idx == list(range(idx[0], idx[0] + len(idx))) and len(idx) >= 3)
        h.claim(f'{cid}/inside-used,outside-not', inside_claims(h, ps, idx, lo, hi))
    else:
        roq = [ns[i] * (1 - ps[i]) for i in range(k)]
        first_dec = None
        for i in range(k - 1):
            if roq[i] > roq[i + 1]:
                first_dec = i
                break
        if err is not None:
            # legitimate only if the Rouquerol window holds fewer than 3 points
            end = (first_dec + 1) if first_dec is not None else k - 1
            cnt = sum(1 for i in range(end + 1) if bool(ps[i] > ps[end] * 0.1))
            h.claim(f'{cid}/refused-only-below-3-points', cnt < 3, info=f'{cnt} {err}')
            return
        xs, ys, slope, icpt, r = lr.calls[0]
        idx = _idx_of(h, xs, ps)
        h.claim(f'{cid}/contiguous,>=3', idx == list(range(idx[0], idx[0] + len(idx))) and len(idx) >= 3)
        end = idx[-1]
        if first_dec is None:
            h.claim(f'{cid}/rouquerol-end', end == k - 1, info=f'end={end}')
        else:
            h.claim(f'{cid}/rouquerol-end', end in (first_dec, first_dec + 1), info=f'end={end} first decrease after {first_dec}')
        start = idx[0]
        ok = True
        for i in range(end + 1):
            if i < start:
                ok = ok & ~(ps[i] > ps[end] * 0.1)
            else:
                ok = ok & ~(ps[i] < ps[end] * 0.1)
        h.claim(f'{cid}/starts-at-one-tenth-of-end-pressure', ok)
    # glue: regression gets (p, bet_transform) of the slice; results are the parameter map of its outputs
    ok = True
    for j, i in enumerate(idx):
        ok = ok & h.eq(ys[j], ps[i] / (ns[i] * (1 - ps[i])))
    h.claim(f'{cid}/regression-gets-bet-transform', ok)
    area, c_c, n_m, p_m, sl, ic, mn, mx, cc = res
    n_o, p_o, c_o, a_o = ab.bet_parameters(slope, icpt, sigma)
    h.claim(f'{cid}/results==parameter-map(regression)', h.eq(sl, slope) & h.eq(ic, icpt) & h.eq(cc, r) & h.eq(n_m, n_o)
            & h.eq(c_c, c_o) & h.eq(area, a_o) & h.eq(p_m, p_o))
    h.claim(f'{cid}/limit-indices', (int(mn), int(mx)) == (idx[0], idx[-1]))


def h_bet_recovery(h, k):
    """exact BET data -> generating parameters (with the exact-line contract)"""
    import pygaps.characterisation.area_bet as ab
    ps = pressures(h, k)
    nm = h.real('nm', pos=True)
    C = h.real('C', lo=1)
    sigma = h.real('sigma', pos=True)
    ns = [bet_eq(p, nm, C) for p in ps]
    lr = LinregressStub(h, exact=True)
    from scipy import stats
    with stubs.patched((stats, 'linregress', lr)):
        res = ab.area_BET_raw(isofix.column(h, ps), isofix.column(h, ns), sigma, (ps[0] / 2, None))
    area, c_c, n_m, p_m, sl, ic, mn, mx, cc = res
    h.claim(f'C14/BET/recovery/k={k}/n_monolayer', h.close(n_m, nm, 1e-9))
    h.claim(f'C14/BET/recovery/k={k}/C', h.close(c_c, C, 1e-9))
    h.claim(f'C14/BET/recovery/k={k}/area', h.close(area, nm * sigma * AVOGADRO * 1e-18, 1e-9))


# ------------------------------------------------------------------ Langmuir
def h_lang(h, k, mode):
    import pygaps.characterisation.area_lang as al
    from pygaps.utilities.exceptions import CalculationError
    from scipy import stats
    ps = pressures(h, k)
    sigma = h.real('sigma', pos=True)
    nm = h.real('nm', pos=True)
    K = h.real('K', pos=True)
    if mode == 'recovery':
        ns = [nm * K * p / (1 + K * p) for p in ps]
        lr = LinregressStub(h, exact=True)
        with stubs.patched((stats, 'linregress', lr)):
            res = al.area_langmuir_raw(isofix.column(h, ps), isofix.column(h, ns), sigma, (ps[0] / 2, None))
        area, kc, n_m, sl, ic, mn, mx, cc = res
        h.claim(f'C14/Langmuir/recovery/k={k}/n_monolayer', h.close(n_m, nm, 1e-9))
        h.claim(f'C14/Langmuir/recovery/k={k}/K', h.close(kc, K, 1e-9))
        h.claim(f'C14/Langmuir/recovery/k={k}/area', h.close(area, nm * sigma * AVOGADRO * 1e-18, 1e-9))
        p = ps[0]
        h.claim('C14/Langmuir/L1/transform-linearises', h.eq(al.langmuir_transform(p, ns[0]), 1 / (nm * K) + p / nm))
        return
    ns = [h.real(f'n{i}', pos=True) for i in range(k)]
    lo = hi = None
    if mode == 'manual':
        lo, hi = h.real('lo', pos=True), h.real('hi', pos=True)
        h.assume(lo < hi)
        limits = (lo, hi)
    else:
        limits = None
        lo, hi = ps[-1] * 0.05, ps[-1] * 0.9
    lr = LinregressStub(h, exact=False)
    with stubs.patched((stats, 'linregress', lr)):
        try:
            res = al.area_langmuir_raw(isofix.column(h, ps), isofix.column(h, ns), sigma, limits)
            err = None
        except CalculationError as e:
            res, err = None, e
    cid = f'C14/Langmuir/window/k={k}/{mode}'
    if err is not None:
        h.claim(f'{cid}/refused-only-below-3-points', count_strictly_inside(ps, lo, hi) < 3, info=str(err))
        return
    xs, ys, slope, icpt, r = lr.calls[0]
    idx = _idx_of(h, xs, ps)
    h.claim(f'{cid}/contiguous,>=3', idx == list(range(idx[0], idx[0] + len(idx))) and len(idx) >= 3)
    h.claim(f'{cid}/inside-used,outside-not', inside_claims(h, ps, idx, lo, hi))
    ok = True
    for j, i in enumerate(idx):
        ok = ok & h.eq(ys[j], ps[i] / ns[i])
    h.claim(f'{cid}/regression-gets-langmuir-transform', ok)
    area, kc, n_m, sl, ic, mn, mx, cc = res
    n_o, k_o, a_o = al.langmuir_parameters(slope, icpt, sigma)
    h.claim(f'{cid}/results==parameter-map(regression)', h.eq(sl, slope) & h.eq(ic, icpt) & h.eq(n_m, n_o) & h.eq(kc, k_o) & h.eq(area, a_o))
    h.claim(f'{cid}/L2/n_m==1/slope,K==slope/intercept', h.eq(n_o, 1 / slope) & h.eq(k_o, slope / icpt)
            & h.close(a_o, (1 / slope) * sigma * AVOGADRO * 1e-18, 1e-9))


# ------------------------------------------------------------------ t-plot / alpha-s
def h_tplot(h, k, mode):
    import pygaps.characterisation.t_plots as tp
    from scipy import stats
    from .c16 import table_fn
    ps = pressures(h, k)
    ts = isofix.increasing(h, [f't{i}' for i in range(k)])
    tm = table_fn(h, ps, ts)
    M = h.real('M', pos=True)
    rho = h.real('rho', pos=True)
    a = h.real('a_icpt', pos=True)
    b = h.real('b_slope', pos=True)
    lo, hi = h.real('tlo', pos=True), h.real('thi', pos=True)
    h.assume(lo < hi)
    if mode == 'recovery':
        ns = [a + b * t for t in ts]
        lr = LinregressStub(h, exact=True)
    else:
        ns = [h.real(f'n{i}', pos=True) for i in range(k)]
        lr = LinregressStub(h, exact=False)
    with stubs.patched((stats, 'linregress', lr)):
        results, curve = tp.t_plot_raw(isofix.column(h, ns), isofix.column(h, ps), tm, rho, M, (lo, hi))
    cid = f'C14/t-plot/k={k}/{mode}'
    ok = True
    for c, t in zip(list(curve), ts):
        ok = ok & h.eq(c, t)
    h.claim(f'{cid}/t-curve==thickness(p)', ok)
    xs, ys, slope, icpt, r = lr.calls[0]
    idx = _idx_of(h, xs, ts)
    h.claim(f'{cid}/inside-used,outside-not', inside_claims(h, ts, idx, lo, hi))
    okg = True
    for j, i in enumerate(idx):
        okg = okg & h.eq(ys[j], ns[i])
    h.claim(f'{cid}/regression-gets-(thickness,loading)', okg)
    if not results:
        h.claim(f'{cid}/dropped-only-by-the-documented-slope-filter', True)
        return
    res = results[0]
    h.claim(f'{cid}/L2/area==slope*M/rho', h.eq(res['area'], slope * M / rho))
    h.claim(f'{cid}/L2/volume==intercept*M/rho/1000', h.eq(res['adsorbed_volume'], icpt * M / rho / 1000))
    h.claim(f'{cid}/L2/slope,intercept-passed-through', h.eq(res['slope'], slope) & h.eq(res['intercept'], icpt))
    if mode == 'recovery' and len(idx) >= 2:
        h.claim(f'{cid}/recovery/slope', h.close(res['slope'], b, 1e-9))
        h.claim(f'{cid}/recovery/intercept', h.close(res['intercept'], a, 1e-9))


def h_alphas(h, k, mode):
    import pygaps.characterisation.alphas_plots as ap
    from scipy import stats
    refl = isofix.increasing(h, [f'r{i}' for i in range(k)])
    M = h.real('M', pos=True)
    rho = h.real('rho', pos=True)
    asp = h.real('alpha_s_point', pos=True)
    aref = h.real('A_ref', pos=True)
    if not h.sym:
        asp = numpy.float64(asp)        # the library calls .item() on the result (numpy scalar in real use)
    lo, hi = h.real('alo', pos=True), h.real('ahi', pos=True)
    h.assume(lo < hi)
    if mode == 'self':
        ns = list(refl)
        lr = LinregressStub(h, exact=True)
    else:
        ns = [h.real(f'n{i}', pos=True) for i in range(k)]
        lr = LinregressStub(h, exact=False)
    with stubs.patched((stats, 'linregress', lr)):
        results, curve = ap.alpha_s_raw(isofix.column(h, ns), isofix.column(h, refl), asp, aref, rho, M, (lo, hi))
    cid = f'C14/alpha-s/k={k}/{mode}'
    alphas = [r / asp for r in refl]
    ok = True
    for c, t in zip(list(curve), alphas):
        ok = ok & h.eq(c, t)
    h.claim(f'{cid}/alpha-curve==reference/alpha_s_point', ok)
    xs, ys, slope, icpt, r = lr.calls[0]
    idx = []
    for x in xs:
        idx.append([i for i, c in enumerate(list(curve)) if c is x or (not h.sym and c == x)][0])
    h.claim(f'{cid}/inside-used,outside-not', inside_claims(h, alphas, idx, lo, hi))
    if not results:
        h.claim(f'{cid}/dropped-only-by-the-documented-slope-filter', True)
        return
    res = results[0]
    h.claim(f'{cid}/L2/area==A_ref/alpha_ref*slope', h.eq(res['area'], aref / asp * slope))
    h.claim(f'{cid}/L2/volume==intercept*M/rho/1000', h.eq(res['adsorbed_volume'], icpt * M / rho / 1000))
    if mode == 'self' and len(idx) >= 2:
        h.claim(f'{cid}/against-itself-returns-reference-area', h.close(res['area'], aref, 1e-9))


# ------------------------------------------------------------------ DR / DA
def h_da(h, k, e, mode):
    import pygaps.characterisation.dr_da_plots as dd
    from pygaps.utilities.exceptions import CalculationError
    from scipy import stats, optimize
    T = h.real('T', pos=True)
    M = h.real('M', pos=True)
    rho = h.real('rho', pos=True)
    # pressures p_i = exp(Lp_i), Lp increasing and negative; volumes V_i = exp(LV_i)
    us = isofix.increasing(h, [f'u{i}' for i in range(k)])      # u = -ln p, positive
    Lp = [-(x) for x in us[::-1]]                                 # ln p, increasing and negative
    ps = [(x.exp() if h.sym else float(numpy.exp(x))) for x in Lp]
    lnV0 = h.real('lnV0')
    c = h.real('c_RT_over_E', pos=True)
    if mode == 'recovery':
        LV = [lnV0 - (c * (-x)) ** e for x in Lp]
    else:
        LV = [h.real(f'LV{i}') for i in range(k)]
    Vs = [(v.exp() if h.sym else float(numpy.exp(v))) for v in LV]
    ns = [v * rho / M for v in Vs]
    lr = LinregressStub(h, exact=(mode == 'recovery'))
    lo = hi = None
    limits = None
    if mode == 'window':
        lo, hi = h.real('lo', pos=True), h.real('hi', pos=True)
        h.assume(lo < hi)
        limits = (lo, hi)
    elif mode == 'recovery':
        limits = (ps[0] / 2, None)
    ms = stubs.OptRes(success=True, x=e)
    with stubs.patched((stats, 'linregress', lr), (optimize, 'minimize_scalar', lambda f, **kw: (f(e), ms)[1])):
        try:
            res = dd.da_plot_raw(isofix.column(h, ps), isofix.column(h, ns), T, M, rho, exp=(None if mode == 'search' else e),
                                 p_limits=limits)
            err = None
        except CalculationError as ex:
            res, err = None, ex
    cid = f'C14/DA/k={k}/exp={e}/{mode}'
    if mode == 'window':
        if err is not None:
            h.claim(f'{cid}/refused-only-below-3-points', count_strictly_inside(ps, lo, hi) < 3, info=str(err))
            return
    h.claim(f'{cid}/returns', err is None, info=str(err))
    if err is not None:
        return
    xs, ys, slope, icpt, r = lr.calls[-1]
    mv, pot, ex_used, sl, ic, mn, mx, cc = res
    idx = list(range(int(mn), int(mx) + 1))
    if mode == 'window':
        h.claim(f'{cid}/>=3-points', len(idx) >= 3)
        h.claim(f'{cid}/inside-used,outside-not', inside_claims(h, ps, idx, lo, hi))
    ok = True
    for j, i in enumerate(idx):
        ok = ok & h.close(xs[j], (-Lp[i]) ** e, 1e-12) & h.close(ys[j], LV[i], 1e-12)
    h.claim(f'{cid}/regression-gets-((-ln p)^m, ln V)', len(xs) == len(idx) and ok)
    ei = icpt.exp() if h.sym else float(numpy.exp(icpt))
    h.claim(f'{cid}/L2/micropore-volume==exp(intercept)', h.close(mv, ei, 1e-12))
    if mode == 'recovery':
        V0 = lnV0.exp() if h.sym else float(numpy.exp(lnV0))
        h.claim(f'{cid}/recovery/micropore-volume', h.close(mv, V0, 1e-9))
        # E = RT / c  ->  potential [kJ/mol] = R T / c / 1000
        h.claim(f'{cid}/recovery/characteristic-energy', h.close(pot, R_GAS * T / c / 1000, 1e-7))
        h.claim(f'{cid}/recovery/exponent', ex_used == e)


def obligations(tier):
    obs = []
    kw = dict(funcs=FUNCS, stubs=['linregress contract stub'], timeout_s=60 if tier == 'quick' else 600, validate=1, max_paths=20000,
              wall_s=600)
    ks = (4, 5) if tier == 'quick' else (3, 4, 5, 6)
    obs.append(Obligation('C14/BET/lemmas', h_bet_lemmas, (), bounds='reals', **kw))
    for k in ks:
        for mode in ('manual', 'lo-only', 'hi-only', 'auto'):
            obs.append(Obligation(f'C14/BET/window/k={k}/{mode}', h_bet_window, (k, mode), bounds=f'k={k}', **kw))
        for mode in ('manual', 'default'):
            obs.append(Obligation(f'C14/Langmuir/window/k={k}/{mode}', h_lang, (k, mode), bounds=f'k={k}', **kw))
    for k in (3, 4):
        obs.append(Obligation(f'C14/BET/recovery/k={k}', h_bet_recovery, (k,), bounds=f'k={k}; C>1', **kw))
        obs.append(Obligation(f'C14/Langmuir/recovery/k={k}', h_lang, (k, 'recovery'), bounds=f'k={k}', **kw))
    for k in (3, 4):
        for mode in ('recovery', 'glue'):
            obs.append(Obligation(f'C14/t-plot/k={k}/{mode}', h_tplot, (k, mode), bounds=f'k={k}; manual limits', **kw))
        for mode in ('self', 'glue'):
            obs.append(Obligation(f'C14/alpha-s/k={k}/{mode}', h_alphas, (k, mode), bounds=f'k={k}; manual limits', **kw))
    for e in (2, 3):
        obs.append(Obligation(f'C14/DA/recovery/exp={e}', h_da, (3, e, 'recovery'), bounds='k=3', closure=False, **kw))
    obs.append(Obligation('C14/DA/window', h_da, (4, 2, 'window'), bounds='k=4', **kw))
    obs.append(Obligation('C14/DA/search', h_da, (3, 2, 'search'), bounds='k=3; exponent search stubbed', **kw))
    return obs
