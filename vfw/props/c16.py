"""C16 - mesopore PSD: widths, volume conservation with zero thickness, distribution, cumulative, Kelvin equation."""
import numpy

from ..core import Obligation
from .. import symx, stubs, isofix

ASSUMPTIONS = [
    'k <= 5 symbolic strictly increasing relative pressures in (0,1) and non-decreasing liquid volumes',
    'thickness t(p) and Kelvin radius r_K(p): unknown positive, increasing functions of pressure (one fresh positive real per '
    'pressure point, ordered like the pressures), plus the real zero-thickness model and the real Kelvin functions',
    'real arithmetic; ln uninterpreted with ground monotonicity axioms; gas constant 8.314462618 J/(mol K) (1e-8)',
    'isotherm entry point: FakeState adsorbate (liquid density, surface tension, molar mass symbolic positive)',
]
FUNCS = ['pygaps.characterisation.psd_meso:psd_pygapsdh', 'pygaps.characterisation.psd_meso:psd_bjh',
         'pygaps.characterisation.psd_meso:psd_dollimore_heal', 'pygaps.characterisation.psd_meso:psd_mesoporous',
         'pygaps.characterisation.models_kelvin:kelvin_radius', 'pygaps.characterisation.models_kelvin:kelvin_radius_kjs',
         'pygaps.characterisation.models_kelvin:get_meniscus_geometry', 'pygaps.characterisation.models_thickness:thickness_zero']
METHODS = {'pygaps-DH': 'psd_pygapsdh', 'BJH': 'psd_bjh', 'DH': 'psd_dollimore_heal'}


def arr(h, vals):
    return isofix.column(h, vals)


def table_fn(h, ps, vals):
    """function defined on the measured pressures only (array in -> array out), looked up by identity of position"""
    def f(p_in):
        a = numpy.asarray(p_in, dtype=object if h.sym else float)
        out = numpy.empty(a.shape, dtype=object if h.sym else float)
        for i, v in enumerate(a.ravel()):
            j = None
            for jj, p in enumerate(ps):
                if v is p or (not symx.is_sym(v) and not symx.is_sym(p) and v == p):
                    j = jj
                    break
            if j is None:
                raise symx.Unsupported('thickness/kelvin stub evaluated off the measured grid')
            out.ravel()[i] = vals[j]
        return out
    return f


def setup(h, k, zero_thickness):
    ps = isofix.increasing(h, [f'p{i}' for i in range(k)])
    h.assume(ps[-1] < 1)
    vs = []
    prev = None
    for i in range(k):
        v = h.real(f'v{i}', pos=True)
        if prev is not None:
            h.assume(v >= prev)
        vs.append(v)
        prev = v
    rk = isofix.increasing(h, [f'rk{i}' for i in range(k)])
    if zero_thickness:
        from pygaps.characterisation.models_thickness import thickness_zero
        tm = thickness_zero
        ts = [0] * k
    else:
        ts = isofix.increasing(h, [f't{i}' for i in range(k)])
        tm = table_fn(h, ps, ts)
    km = table_fn(h, ps, rk)
    return ps, vs, ts, rk, tm, km


def h_kernel(h, method, geom, k, zero_thickness):
    import pygaps.characterisation.psd_meso as pm
    ps, vs, ts, rk, tm, km = setup(h, k, zero_thickness)
    res = getattr(pm, METHODS[method])(arr(h, vs), arr(h, ps), geom, tm, km)
    w = list(res['pore_widths'])
    pv = list(res['pore_volumes'])
    dist = list(res['pore_distribution'])
    cid = f'C16/{method}/{geom}/k={k}/zero_t={zero_thickness}'
    h.claim(f'{cid}/shapes', len(w) == k - 1 and len(pv) == k - 1 and len(dist) == k - 1)
    # widths = 2 (t + r_K) at the measured pressures (upper node of each interval), increasing
    up = True
    low = True
    for i in range(k - 1):
        up = up & h.eq(w[i], 2 * (ts[i + 1] + rk[i + 1]))
        low = low & h.eq(w[i], 2 * (ts[i] + rk[i]))
    # each interval is reported at one of its two measured pressures, the same choice for every interval
    h.claim(f'{cid}/widths==2(t+rK)-at-measured-pressures', up | low)
    inc = True
    for i in range(k - 2):
        inc = inc & (w[i] < w[i + 1])
    h.claim(f'{cid}/widths-increase-with-pressure', inc)
    # distribution * width increment == pore volume
    ok = True
    for i in range(k - 1):
        dw = 2 * (ts[i + 1] + rk[i + 1]) - 2 * (ts[i] + rk[i])      # width increment of the interval
        ok = ok & h.close(dist[i] * dw, pv[i], 1e-12)
    h.claim(f'{cid}/distribution*dwidth==volume', ok)
    if zero_thickness:
        ok = True
        tot = 0
        for i in range(k - 1):
            ok = ok & h.eq(pv[i], vs[i + 1] - vs[i])
            tot = tot + pv[i]
        h.claim(f'{cid}/volumes==successive-changes', ok)
        h.claim(f'{cid}/volumes-sum-to-total-change', h.eq(tot, vs[-1] - vs[0]))
        # single condensation step: all increments zero but one -> exactly one non-zero volume, in that interval
        # (expressed as: pv[i] == 0 whenever v[i+1] == v[i])
        ok = True
        for i in range(k - 1):
            ok = ok & ((pv[i] == 0) | (vs[i + 1] != vs[i])) if h.sym else ok & ((pv[i] == 0) or (vs[i + 1] != vs[i]))
        h.claim(f'{cid}/no-step=>no-volume', ok)


def h_mesoporous(h, method, branch, k, lim):
    """isotherm entry point: limits, data in liquid volume / relative pressure, cumulative curve"""
    import pygaps.characterisation.psd_meso as pm
    from pygaps.units.converter_mode import c_loading
    T, ads = isofix.sym_env(h)
    ps = isofix.increasing(h, [f'p{i}' for i in range(k)])
    h.assume(ps[-1] < 1)
    ns = isofix.increasing(h, [f'n{i}' for i in range(k)])
    order = list(range(k)) if branch == 'ads' else list(range(k))[::-1]
    units = dict(pressure_mode='relative', pressure_unit=None)
    iso = isofix.point_iso(h, [ps[i] for i in order], [ns[i] for i in order], units=units, ads=ads, T=T,
                           branch=[0 if branch == 'ads' else 1] * k)
    lo, hi = lim
    if lo == 'sym':
        lo = h.real('lo', pos=True)
    if hi == 'sym':
        hi = h.real('hi', pos=True)
    rec = {}

    def spy(volume_adsorbed, relative_pressure, pore_geometry, thickness_model, condensation_model):
        rec['v'] = list(volume_adsorbed)
        rec['p'] = list(relative_pressure)
        n = len(rec['p'])
        # stand-in kernel: any volumes
        pvs = numpy.array([h.real(f'pv{i}') for i in range(n - 1)], dtype=object if h.sym else float)
        return {'pore_widths': numpy.arange(1, n), 'pore_areas': pvs * 2, 'pore_volumes': pvs, 'pore_distribution': pvs}

    from pygaps.utilities.exceptions import CalculationError
    with stubs.patched((pm, METHODS[method], spy)):
        try:
            res = pm.psd_mesoporous(iso, psd_model=method, pore_geometry='cylinder', branch=branch, thickness_model='zero thickness',
                                    p_limits=(lo, hi))
            err = None
        except CalculationError as e:
            res, err = None, e
    cid = f'C16/mesoporous/{method}/{branch}/k={k}/lim={lim}'
    # which points are inside the limits (boundary points may go either way)
    vol = [c_loading(n, 'molar', 'volume_liquid', 'mmol', 'cm3', adsorbate=ads, temp=T) for n in ns]
    if err is not None:
        # refused: fewer than 3 points strictly inside is the only legitimate reason
        cnt = 0
        for p in ps:
            inside = True
            if lo is not None:
                inside = inside & (p > lo)
            if hi is not None:
                inside = inside & (p < hi)
            cnt = cnt + (1 if (inside if isinstance(inside, bool) else bool(inside)) else 0)
        h.claim(f'{cid}/refused-only-with-fewer-than-3-points', cnt < 3, info=f'{cnt} points strictly inside, {err}')
        return
    used = rec['p']
    idx = []
    for u in used:
        idx.append([i for i, p in enumerate(ps) if u is p or (not h.sym and u == p)][0])
    h.claim(f'{cid}/contiguous-increasing-slice', idx == list(range(idx[0], idx[0] + len(idx))) and len(idx) >= 3, info=str(idx))
    ok = True
    for i, p in enumerate(ps):
        strictly_in = True
        strictly_out = False
        if lo is not None:
            strictly_in = strictly_in & (p > lo)
            strictly_out = strictly_out | (p < lo)
        if hi is not None:
            strictly_in = strictly_in & (p < hi)
            strictly_out = strictly_out | (p > hi)
        if i in idx:
            ok = ok & ~strictly_out if not isinstance(strictly_out, bool) else ok & (not strictly_out)
        else:
            ok = ok & ~strictly_in if not isinstance(strictly_in, bool) else ok & (not strictly_in)
    h.claim(f'{cid}/points-inside-limits-used,outside-not', ok)
    okv = True
    for j, i in enumerate(idx):
        okv = okv & h.close(rec['v'][j], vol[i], 1e-9)
    h.claim(f'{cid}/kernel-gets-liquid-volume-cm3', okv)
    cum = list(res['pore_volume_cumulative'])
    pvs = list(res['pore_volumes'])
    h.claim(f'{cid}/cumulative-ends-at-volume-at-highest-pressure-used', h.close(cum[-1], vol[idx[-1]], 1e-9))
    okc = True
    for i in range(1, len(cum)):
        okc = okc & h.close(cum[i] - cum[i - 1], pvs[i], 1e-9, 1e-12)
    h.claim(f'{cid}/cumulative-increments==volumes', okc)
    h.claim(f'{cid}/limits-reported', tuple(res['limits']) == (idx[0], idx[-1]), info=f"{res['limits']} vs {idx}")


R_GAS = 8.314462618


def h_kelvin(h, model, geom):
    import pygaps.characterisation.models_kelvin as km
    p = h.real('p', pos=True)
    h.assume(p < 1)
    T = h.real('T', pos=True)
    rho = h.real('rho', pos=True)
    M = h.real('M', pos=True)
    gamma = h.real('gamma', pos=True)
    fn = km.get_kelvin_model(model, meniscus_geometry=geom, temperature=T, liquid_density=rho, adsorbate_molar_mass=M,
                             adsorbate_surface_tension=gamma)
    r = fn(p)
    lnp = p.log() if h.sym else numpy.log(p)
    G = {'cylindrical': 2, 'hemispherical': 1, 'hemicylindrical': 0.5}[geom]
    cid = f'C16/kelvin/{model}/{geom}'
    if model == 'Kelvin':
        # ln p = - 2 gamma M / (G r rho R T)
        h.claim(f'{cid}/kelvin-equation', h.close(r * G * R_GAS * T * lnp * rho, -2 * gamma * M, 1e-7))
        h.claim(f'{cid}/positive', r > 0)
    else:
        h.claim(f'{cid}/kjs==kelvin+0.3nm', h.close((r - 0.3) * R_GAS * T * lnp * rho, -2 * gamma * M, 1e-7))
    # array input, elementwise
    q = h.real('q', pos=True)
    h.assume(q < 1)
    ra = fn(arr(h, [p, q]))
    h.claim(f'{cid}/array-elementwise', h.close(ra[0], r, 1e-12) & h.close(ra[1], fn(q), 1e-12))
    # increasing in pressure
    h.assume(p < q)
    h.claim(f'{cid}/radius-increases-with-pressure', r < fn(q))


def h_meniscus(h):
    import pygaps.characterisation.models_kelvin as km
    want = {('ads', 'slit'): 'hemicylindrical', ('ads', 'cylinder'): 'cylindrical', ('ads', 'sphere'): 'hemispherical',
            ('des', 'slit'): 'hemicylindrical', ('des', 'cylinder'): 'hemispherical', ('des', 'sphere'): 'hemispherical'}
    for (b, g), m in want.items():
        h.claim(f'C16/meniscus/{b}/{g}', km.get_meniscus_geometry(b, g) == m)
    v = h.real('dummy', pos=True)
    h.claim('C16/meniscus/reached', v > 0)


def obligations(tier):
    obs = []
    kw = dict(funcs=FUNCS, timeout_s=60 if tier == 'quick' else 600, validate=1)
    ks = (3, 4) if tier == 'quick' else (3, 4, 5)      # (k = 6: z3 did not return within 25 min on the BJH recurrence)
    for k in ks:
        for zt in (True, False):
            for geom in ('slit', 'cylinder', 'sphere'):
                obs.append(Obligation(f'C16/pygaps-DH/{geom}/k={k}/zt={zt}', h_kernel, ('pygaps-DH', geom, k, zt), bounds=f'k={k}', **kw))
            for m in ('BJH', 'DH'):
                obs.append(Obligation(f'C16/{m}/cylinder/k={k}/zt={zt}', h_kernel, (m, 'cylinder', k, zt), bounds=f'k={k}', **kw))
    for method in METHODS:
        for branch in ('ads', 'des'):
            for lim in [(None, None), ('sym', 'sym'), ('sym', None), (None, 'sym')]:
                obs.append(Obligation(f'C16/mesoporous/{method}/{branch}/{lim}', h_mesoporous, (method, branch, 4 if tier == 'quick' else 5, lim),
                                      bounds='k=4 points; symbolic limits', stubs=['FakeState', 'kernel recorder'], **kw))
    for geom in ('cylindrical', 'hemispherical', 'hemicylindrical'):
        obs.append(Obligation(f'C16/kelvin/Kelvin/{geom}', h_kelvin, ('Kelvin', geom), bounds='reals', **kw))
    obs.append(Obligation('C16/kelvin/Kelvin-KJS/cylindrical', h_kelvin, ('Kelvin-KJS', 'cylindrical'), bounds='reals', **kw))
    obs.append(Obligation('C16/meniscus', h_meniscus, (), bounds='6 combinations', **kw))
    return obs
