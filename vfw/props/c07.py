"""C07 - CSV / Excel / AIF round trips (reduced claim: the CSV metadata value codec, decided with CrossHair)."""
import os

from ..core import Obligation, VERIF
from .. import chdriver

ASSUMPTIONS = [
    'CrossHair 0.0.110 symbolic execution (z3) of cast_string / _to_string / _from_list and of the metadata line writer + reader '
    'split, for str of length <= 4 (2 for key/value pairs), all ints, bools, None, lists of <= 3 ints; per-condition budget 60 s '
    '(thorough 300 s); "Not confirmed" within the budget is reported as inconclusive, never as discharged',
    'NOT applicable (stated): Excel (xlwt/xlrd binary workbook I/O), AIF (gemmi C++ parser), and the CSV data table '
    '(DataFrame.to_csv / read_csv, C code) cannot be executed symbolically; float <-> str round trips are the interpreter guarantee',
]
FILE = os.path.join(VERIF, 'ch', 'c07_codec.py')
FUNCS = ['pygaps.utilities.string_utilities:cast_string', 'pygaps.utilities.string_utilities:_to_string',
         'pygaps.utilities.string_utilities:_from_list', 'pygaps.parsing.csv:isotherm_from_csv']
CONTRACTS = ['_rt_int', '_rt_neg_int', '_rt_bool', '_rt_none', '_rt_int_list', '_rt_text', '_text_never_silently_changed', '_metadata_line']


def obligations(tier):
    budget = 60 if tier == 'quick' else 300
    return [Obligation(f'C07/codec/{name}', chdriver.run, (FILE, name, budget), funcs=FUNCS, kind='crosshair',
                       bounds=f'CrossHair, per-condition budget {budget}s; |str| <= 4', stubs=[]) for name in CONTRACTS]
