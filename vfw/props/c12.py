"""C12 - model fitting is self-consistent (reduced claim: everything around the optimiser)."""
import itertools
import types

import numpy
import pandas

from ..core import Obligation
from .. import symx, stubs, isofix
from .c10 import get_model

ASSUMPTIONS = [
    'scipy.optimize.least_squares replaced by a contract stub: it records fun/x0/bounds/args, and on success returns a symbolic '
    'optimum x* inside the bounds handed over together with the residual vector fun(x*) (or fresh residuals for the best-of-list '
    'obligations); it may report failure or raise ValueError.  That least squares recovers generating parameters, and '
    'unit-equivariance of the fitted curve, are statements about an iterative optimiser and are NOT claimed',
    'k = 2..3 symbolic data points; real arithmetic; sqrt encoded exactly',
]
FUNCS = ['pygaps.modelling.base_model:IsothermBaseModel.fit', 'pygaps.modelling.base_model:IsothermBaseModel.fit_leastsq',
         'pygaps.modelling.base_model:IsothermBaseModel.initial_guess', 'pygaps.modelling.base_model:IsothermBaseModel.initial_guess_bounds',
         'pygaps.core.modelisotherm:ModelIsotherm.__init__', 'pygaps.core.modelisotherm:ModelIsotherm.guess',
         'pygaps.core.modelisotherm:ModelIsotherm.from_pointisotherm', 'pygaps.core.pointisotherm:PointIsotherm.from_modelisotherm']
UNITS = dict(isofix.DEFAULT_UNITS)


class LeastSquaresStub:
    def __init__(self, h, mode='eval', name='ls'):
        self.h, self.mode, self.name = h, mode, name
        self.calls = []

    def __call__(self, fun=None, x0=None, bounds=None, args=(), **kw):
        h = self.h
        n = len(self.calls)
        call = types.SimpleNamespace(fun=fun, x0=x0, bounds=bounds, args=args, kw=kw, x=None, r=None)
        self.calls.append(call)
        outcome = h.choice(f'{self.name}{n}_outcome', 3)       # 0 success, 1 reports failure, 2 raises ValueError
        if outcome == 2:
            raise symx.simulated(ValueError('stub: x0 is infeasible'))
        if outcome == 1:
            return stubs.OptRes(success=False, message='stub: did not converge', x=x0, fun=None, cost=None, status=0, nfev=1, njev=1, optimality=None)
        m = len(list(x0))
        x = []
        for i in range(m):
            v = h.real(f'{self.name}{n}_x{i}')
            lo, hi = bounds[0][i], bounds[1][i]
            if not (isinstance(lo, float) and numpy.isinf(lo)):
                h.assume(v >= lo)
            if not (isinstance(hi, float) and numpy.isinf(hi)):
                h.assume(v <= hi)
            x.append(v)
        call.x = x
        xa = isofix.column(h, x)
        if self.mode == 'eval':
            r = fun(xa, *args)
            # contract of least_squares: the residuals at a solution it reports with success are finite (the cost only
            # decreases from a finite start); a returned point on a pole of the model is outside the contract
            if any(symx._nonfinite(v) is not None for v in numpy.asarray(r, dtype=object).ravel()):
                if h.sym:
                    raise symx.Abort()
                h.assume(False)
        else:
            k = len(numpy.asarray(args[0], dtype=object).ravel())
            r = isofix.column(h, [h.real(f'{self.name}{n}_r{j}') for j in range(k)])
        call.r = r
        # scipy's contract: cost = 0.5 * sum(rho(f_i^2)); for the default linear loss that is 0.5 * sum(f_i^2), for a robust
        # loss (soft_l1, huber, cauchy, arctan) it is the robustified objective, a different number
        ssq = 0
        for v_ in numpy.asarray(r, dtype=object).ravel():
            ssq = ssq + v_ * v_
        loss = kw.get('loss', 'linear')
        cost = 0.5 * ssq if loss == 'linear' else h.real(f'{self.name}{n}_robust_cost', nonneg=True)
        return stubs.OptRes(success=True, x=xa, fun=r, cost=cost, message='stub', status=1, nfev=1, njev=1,
                            optimality=h.real(f'{self.name}{n}_optimality', nonneg=True))


def data(h, k, ordered=True):
    ps = isofix.increasing(h, [f'p{i}' for i in range(k)]) if ordered else [h.real(f'p{i}', pos=True) for i in range(k)]
    ns = [h.real(f'n{i}', pos=True) for i in range(k)]
    return ps, ns


def h_fit(h, name, user_bounds, loss=None):
    from scipy import optimize
    from pygaps.utilities.exceptions import CalculationError
    k = 3
    ps, ns = data(h, k)
    lo_l, hi_l = h.real('lrange_lo'), h.real('lrange_hi')
    h.assume(lo_l < hi_l)
    kw = dict(pressure_range=(ps[0], ps[-1]), loading_range=(lo_l, hi_l))
    ub = None
    if user_bounds:
        m0 = get_model(name)
        first = m0.param_names[0] if not isinstance(m0.param_names, str) else m0.param_names
        ub = {p: b for p, b in zip(m0.param_names if not isinstance(m0.param_names, str) else (m0.param_names,), m0.param_default_bounds)}
        ub[first] = (0.5, 7.0)
        kw['param_bounds'] = ub
    import pygaps.modelling as pgm
    m = pgm.get_isotherm_model(name, **kw)
    guess = {p: 1.0 for p in m.params}
    # the residual vector reported by the optimiser is a vector of fresh symbols: the rmse identity is then decided for ANY
    # reported residuals (fit() reads them only for the rmse), and the query stays small
    ls = LeastSquaresStub(h, mode='fresh')
    with stubs.patched((optimize, 'least_squares', ls)):
        try:
            m.fit(isofix.column(h, ps), isofix.column(h, ns), guess, optimization_params={'loss': loss} if loss else None)
            err = None
        except CalculationError as e:
            err = e
    call = ls.calls[0]
    cid = f'C12/fit/{name}/user_bounds={user_bounds}' + (f'/loss={loss}' if loss else '')
    if loss:
        h.claim(f'{cid}/optimiser-options-passed-on', call.kw.get('loss') == loss)
    h.claim(f'{cid}/failure-or-ValueError=>CalculationError', (err is not None) == (call.x is None))
    names = list(m.params)
    lo = [float(b) for b in call.bounds[0]]
    hi = [float(b) for b in call.bounds[1]]
    want = [(ub or dict(zip(names, m.param_default_bounds)))[p] if ub else dict(zip(names, m.param_default_bounds))[p] for p in names]
    h.claim(f'{cid}/bounds-handed-over==bounds-in-force', lo == [float(b[0]) for b in want] and hi == [float(b[1]) for b in want],
            info=f'{lo},{hi} vs {want}')
    h.claim(f'{cid}/start-vector==guess', [float(v) for v in call.x0] == [1.0] * len(names))
    if err is not None:
        return
    ok = True
    for p, v in zip(names, call.x):
        ok = ok & h.eq(m.params[p], v)
    h.claim(f'{cid}/stored-parameters==optimum', ok)
    # residual function on fresh parameters == model(data) - data for the right pair of columns
    z = [h.real(f'z{i}', pos=True) for i in range(len(names))]
    got = call.fun(isofix.column(h, z), *call.args)
    m2 = get_model(name)
    nf = (lambda v: v) if h.sym else numpy.float64      # numpy float semantics (x/0 -> inf) as in the library's own arrays
    m2.params = dict(zip(names, [nf(v) for v in z]))
    okr = True
    for i in range(k):
        want_r = (m2.loading(nf(ps[i])) - ns[i]) if m2.calculates == 'loading' else (m2.pressure(nf(ns[i])) - ps[i])
        okr = okr & h.close(got[i], want_r, 1e-12)
    h.claim(f'{cid}/residual==model(data)-data', okr)
    # rmse identity: rmse^2 * n * range^2 == sum r^2   (range = loading range for loading-explicit models)
    rng = (hi_l - lo_l) if m.calculates == 'loading' else (ps[-1] - ps[0])
    ssq = 0
    for v in numpy.asarray(call.r, dtype=object).ravel():
        ssq = ssq + v * v
    q = m.rmse * rng         # (kept as one factor: the query stays quadratic)
    # (tolerance, not exact equality: an equivalent formulation may go through an irrational float constant such as sqrt(n))
    h.claim(f'{cid}/rmse^2*n*range^2==sum(r^2)', h.close(q * q * k, ssq, 1e-9) & (q >= 0))


def h_guess_bounds(h):
    m = get_model('Langmuir')
    lo, hi = h.real('lo'), h.real('hi')
    h.assume(lo < hi)
    m.param_bounds = {'K': (lo, hi), 'n_m': (0.0, numpy.inf)}
    g = h.real('g')
    g2 = h.real('g2')
    out = m.initial_guess_bounds({'K': g, 'n_m': g2})
    h.claim('C12/initial_guess_bounds/inside', (out['K'] >= lo) & (out['K'] <= hi) & (out['n_m'] >= 0))
    h.claim('C12/initial_guess_bounds/unchanged-when-inside', ((g < lo) | (g > hi) | h.eq(out['K'], g)))


def h_best_of_list(h, models):
    """guess(): returns a converged candidate of minimal reported error; raises iff none converged"""
    from scipy import optimize
    from pygaps.core.modelisotherm import ModelIsotherm
    from pygaps.utilities.exceptions import CalculationError
    ps, ns = data(h, 2)
    h.assume(ns[0] < ns[1])       # a loading range of zero makes the normalised error undefined
    ls = LeastSquaresStub(h, mode='fresh')
    with stubs.patched((optimize, 'least_squares', ls)):
        try:
            best = ModelIsotherm.guess(pressure=isofix.column(h, ps), loading=isofix.column(h, ns), models=list(models),
                                       material='m', adsorbate='fakegas-placeholder', temperature=300.0, **UNITS)
            err = None
        except CalculationError as e:
            best, err = None, e
    cid = f'C12/guess/{"+".join(models)}'
    conv = [c for c in ls.calls if c.x is not None]
    h.claim(f'{cid}/every-candidate-tried', len(ls.calls) == len(models))
    if not conv:
        h.claim(f'{cid}/none-converged=>CalculationError', err is not None)
        return
    h.claim(f'{cid}/returns-when-some-converged', err is None, info=repr(err)[:100])
    if err is not None:
        return
    # rmse of every converged candidate, from its own residuals
    def rmse_sq(c, mname):
        k = 2
        ssq = 0
        for v in numpy.asarray(c.r, dtype=object).ravel():
            ssq = ssq + v * v
        mm = get_model(mname)
        rng = (max(ns) - min(ns)) if mm.calculates == 'loading' else (max(ps) - min(ps))
        return ssq / k / (rng * rng)
    tried = [m for m, c in zip(models, ls.calls)]
    conv_names = [m for m, c in zip(models, ls.calls) if c.x is not None]
    h.claim(f'{cid}/winner-is-a-converged-candidate', best.model.name in conv_names, info=f'{best.model.name} of {conv_names}')
    wr = best.model.rmse * best.model.rmse
    ok = True
    for mname, c in zip(models, ls.calls):
        if c.x is not None:
            ok = ok & (wr <= rmse_sq(c, mname) * (1 + 1e-9))
    h.claim(f'{cid}/winner-has-the-smallest-reported-error', ok)
    # winner's stored parameters are its own optimum
    wc = [c for m_, c in zip(models, ls.calls) if c.x is not None and m_ == best.model.name]
    okp = bool(wc)
    if wc:
        for p, v in zip(list(best.model.params), wc[-1].x):
            okp = okp & h.eq(best.model.params[p], v)
    h.claim(f'{cid}/winner-keeps-its-own-parameters', okp)


def h_branch_rows(h, branch, marks, via):
    """only the rows of the requested branch, as (pressure, loading) pairs in stored order, reach the fitter"""
    from scipy import optimize
    from pygaps.core.modelisotherm import ModelIsotherm
    from pygaps.utilities.exceptions import CalculationError, ParameterError
    k = len(marks)
    ps = [h.real(f'p{i}', pos=True) for i in range(k)]
    ns = [h.real(f'n{i}', pos=True) for i in range(k)]
    ls = LeastSquaresStub(h, mode='fresh')
    want = [i for i in range(k) if marks[i] == (0 if branch == 'ads' else 1)]
    cid = f'C12/branch/{via}/{branch}/{marks}'
    with stubs.patched((optimize, 'least_squares', ls)):
        try:
            if via == 'dataframe':
                df = pandas.DataFrame({'pressure': isofix.column(h, ps), 'loading': isofix.column(h, ns), 'branch': list(marks)})
                ModelIsotherm(isotherm_data=df, pressure_key='pressure', loading_key='loading', branch=branch, model='Henry',
                              material='m', adsorbate='fakegas-placeholder', temperature=300.0, **UNITS)
            else:
                T, ads = isofix.sym_env(h)
                iso = isofix.point_iso(h, ps, ns, ads=ads, T=300.0, branch=list(marks))
                ModelIsotherm.from_pointisotherm(iso, branch=branch, model='Henry')
            err = None
        except (CalculationError, ParameterError) as e:
            err = e
    if not want:
        h.claim(f'{cid}/empty-branch-refused', err is not None and not ls.calls)
        return
    h.claim(f'{cid}/fitter-called', len(ls.calls) == 1, info=repr(err)[:120])
    if not ls.calls:
        return
    gp = list(numpy.asarray(ls.calls[0].args[0], dtype=object).ravel())
    gl = list(numpy.asarray(ls.calls[0].args[1], dtype=object).ravel())
    ok = len(gp) == len(want) and len(gl) == len(want)
    r = True
    if ok:
        for j, i in enumerate(want):
            r = r & h.eq(gp[j], ps[i]) & h.eq(gl[j], ns[i])
    h.claim(f'{cid}/fitter-gets-exactly-the-branch-rows-as-pairs-in-order', ok and r)


def h_from_model(h, name):
    """PointIsotherm.from_modelisotherm: points lie on the model; metadata and units carried over"""
    from pygaps.core.pointisotherm import PointIsotherm
    T, ads = isofix.sym_env(h)
    m = get_model(name)
    from .c10 import sym_params
    sym_params(h, m)
    m.pressure_range = (0.1, 2.0)
    m.loading_range = (0.0, 5.0)
    units = dict(UNITS, pressure_unit='kPa', loading_unit='mol')
    miso = isofix.model_iso(h, m, units=units, ads=ads, T=300.0, properties={'user': 'kept', 'n': 3})
    pp = [h.real('q0', pos=True), h.real('q1', pos=True)]
    h.assume(pp[0] < pp[1])
    pi = PointIsotherm.from_modelisotherm(miso, pressure_points=isofix.column(h, pp))
    cid = f'C12/from_modelisotherm/{name}'
    gp = list(pi.data_raw[pi.pressure_key])
    gl = list(pi.data_raw[pi.loading_key])
    ok = len(gp) == 2
    r = True
    if ok:
        for i in range(2):
            r = r & h.eq(gp[i], pp[i]) & h.close(gl[i], m.loading(pp[i]), 1e-12)
    h.claim(f'{cid}/points-lie-on-the-model', ok and r)
    h.claim(f'{cid}/units-carried-over', {k: getattr(pi, k) for k in units} == units, info=str({k: getattr(pi, k) for k in units}))
    h.claim(f'{cid}/metadata-carried-over', pi.properties.get('user') == 'kept' and pi.properties.get('n') == 3
            and str(pi.material) == str(miso.material), info=str(pi.properties))


def obligations(tier):
    obs = []
    kw = dict(funcs=FUNCS, stubs=['least_squares contract stub'], timeout_s=60 if tier == 'quick' else 600, validate=1, max_paths=6000)
    for name in (['Langmuir', 'Henry', 'BET', 'Quadratic', 'DSLangmuir'] if tier == 'quick' else
                 ['Langmuir', 'Henry', 'BET', 'Quadratic', 'DSLangmuir', 'TSLangmuir', 'GAB', 'TemkinApprox']):
        if name == 'Virial':
            continue
        for ub in (False, True):
            obs.append(Obligation(f'C12/fit/{name}/{ub}', h_fit, (name, ub), bounds='k=3', **kw))
        if name == 'Langmuir':
            obs.append(Obligation(f'C12/fit/{name}/False/soft_l1', h_fit, (name, False, 'soft_l1'), bounds='k=3; robust loss passed on to the optimiser', **kw))
    # (pressure-explicit models go through the same fit(); FH-VST with symbolic parameters exhausts the exploration budget
    #  on division forks and is not included)
    obs.append(Obligation('C12/initial_guess_bounds', h_guess_bounds, (), bounds='reals', **kw))
    for models in [('Henry', 'Langmuir'), ('Langmuir', 'Henry', 'Freundlich'), ('Freundlich', 'Henry')]:
        obs.append(Obligation(f'C12/guess/{"+".join(models)}', h_best_of_list, (models,), bounds='k=2; every success/failure pattern', **kw))
    for via in ('dataframe', 'pointisotherm'):
        for branch in ('ads', 'des'):
            for marks in [(0, 0, 1), (0, 1, 1), (1, 0, 1), (0, 0, 0)]:
                obs.append(Obligation(f'C12/branch/{via}/{branch}/{marks}', h_branch_rows, (branch, marks, via), bounds='k=3; unordered data', **kw))
    for name in ('Langmuir', 'Henry'):
        obs.append(Obligation(f'C12/from_modelisotherm/{name}', h_from_model, (name,), bounds='2 pressure points', **kw))
    return obs
