"""C15 - characterisation results do not depend on the units the isotherm is stored in."""
import itertools

import numpy

from ..core import Obligation
from .. import symx, stubs, isofix, wrappers, oracle_units as O
from . import c01, c02
from .c14 import LinregressStub

ASSUMPTIONS = [
    'differential: the same physical isotherm (symbolic base quantities in Pa and mol/g, k=3 points) is expressed in representation A '
    'with the independent SI oracle (not with convert()) and in the canonical representation; the numeric kernel of every entry '
    'point is replaced by a recorder and must receive equal numeric arguments (oracle unit tolerance) and identical non-numeric ones',
    'representations varied one quantity at a time: 10 pressure representations, 25 non-fractional loading representations, '
    'material representations, temperature unit (thorough: also pairs)',
    'results reported in the isotherm own units (initial Henry constant) must scale by exactly the unit factors',
    'homogeneity lemmas on the kernels with the linregress contract stub: loadings * c => extensive outputs * c, intensive unchanged',
    'export / re-import invariance belongs to C06/C07; optimiser-based kernels only up to "arguments delivered are invariant"',
]
FUNCS = wrappers and ['pygaps.characterisation.area_bet:area_BET', 'pygaps.characterisation.area_lang:area_langmuir',
                      'pygaps.characterisation.t_plots:t_plot', 'pygaps.characterisation.alphas_plots:alpha_s',
                      'pygaps.characterisation.dr_da_plots:da_plot', 'pygaps.characterisation.psd_meso:psd_mesoporous',
                      'pygaps.characterisation.psd_micro:psd_microporous', 'pygaps.characterisation.psd_kernel:psd_dft',
                      'pygaps.characterisation.initial_henry:initial_henry_slope',
                      'pygaps.characterisation.isosteric_enth:isosteric_enthalpy',
                      'pygaps.utilities.pygaps_utilities:get_iso_loading_and_pressure_ordered']
CANON = dict(pressure_mode='absolute', pressure_unit='Pa', loading_basis='molar', loading_unit='mol', material_basis='mass',
             material_unit='g', temperature_unit='K')
FR = ('fraction', 'percent')


class World(c02.Env):
    """symbolic base quantities (Pa, mol/g) from which the isotherm in any representation is written down with the oracle"""

    def __init__(self, h, k=3):
        super().__init__(h, k)
        self.bp = self.dp           # base pressures in Pa, strictly increasing, kept below p_sat
        self.bn = self.dn           # base loadings in mol/g
        if h.sym:
            h.assume(self.bp[-1] < self.psat)
            for i in range(k - 1):      # points at least 1 % apart (library constants are rounded to 4 digits)
                h.assume((self.bp[i + 1] > self.bp[i] * 1.01) & (self.bn[i + 1] > self.bn[i] * 1.01))

    def iso_in(self, S, branch='ads', stretch=False):
        h = self.h
        bp = list(self.bp)
        if stretch:         # a reference isotherm whose range strictly contains the sample's pressures
            bp = [bp[0] * 0.9] + bp[1:-1] + [bp[-1] * 1.1]
        dp, dn = self.data_of(S, bp, self.bn)
        T = self.TK if S['temperature_unit'] == 'K' else self.TK - 273.15
        marks = [0 if branch == 'ads' else 1] * self.k
        if branch == 'des':
            dp, dn = dp[::-1], dn[::-1]
        iso = isofix.point_iso(h, dp, dn, units=S, ads=self.ads, mat=self.mat, T=T, branch=marks,
                               extra={'enthalpy': isofix.column(h, self.extra_num)})
        iso._adsorbate.properties.update(wrappers.ADS_PROPS)
        return iso


def leaves_equal(h, a, b, tol):
    fa, fb = wrappers.flatten(a), wrappers.flatten(b)
    if len(fa) != len(fb):
        return False, f'{len(fa)} vs {len(fb)} leaves'
    r = True
    for (ka, va), (kb, vb) in zip(fa, fb):
        if ka != kb:
            return False, f'{ka} vs {kb}'
        if ka == 'val' and (symx.is_sym(va) or symx.is_sym(vb) or isinstance(va, (int, float, numpy.number)) and not isinstance(va, bool)):
            if va is None or vb is None:
                if va is not vb:
                    return False, 'None mismatch'
                continue
            r = r & h.close(va, vb, tol, 0.0)
        elif va != vb if not (symx.is_sym(va) or symx.is_sym(vb)) else False:
            return False, f'{va!r} vs {vb!r}'
    return r, ''


def reps(tier):
    out = []
    for pr in c01.pressure_reps():
        out.append(dict(CANON, pressure_mode=pr[0], pressure_unit=pr[1]))
    for lr in c01.loading_reps():
        if lr[0] not in FR:
            out.append(dict(CANON, loading_basis=lr[0], loading_unit=lr[1]))
    for mr in ([('mass', 'kg'), ('volume', 'cm3'), ('molar', 'mol')] if tier == 'quick' else c01.material_reps()):
        out.append(dict(CANON, material_basis=mr[0], material_unit=mr[1]))
    out.append(dict(CANON, temperature_unit='°C'))
    out.append(dict(pressure_mode='relative%', pressure_unit=None, loading_basis='volume_gas', loading_unit='L', material_basis='mass',
                    material_unit='g', temperature_unit='°C'))
    if tier == 'thorough':
        for pr, lr in itertools.product(c01.pressure_reps()[::3], [r for r in c01.loading_reps() if r[0] not in FR][::4]):
            out.append(dict(CANON, pressure_mode=pr[0], pressure_unit=pr[1], loading_basis=lr[0], loading_unit=lr[1]))
    return out


def rep_tag(S):
    return f"{S['pressure_mode']}:{S['pressure_unit']},{S['loading_basis']}:{S['loading_unit']}/{S['material_basis']}:{S['material_unit']},{S['temperature_unit']}"


def rep_tol(S):
    return 4 * O.tol(S['pressure_unit'], S['loading_unit'], S['material_unit']) + 1e-9


MATERIAL_SENSITIVE = ()     # every entry point here asks for loadings per the isotherm's own material unit unless it says otherwise


def h_entry(h, name, branch, Ss):
    with stubs.exact_unit_tables(h):
        w = World(h)
        extra = {'branch': branch}
        canon_iso = w.iso_in(CANON, branch)
        if name == 'alpha_s':
            h.assume((w.bp[0] < w.psat * 0.3) & (w.bp[2] > w.psat * 0.5) & (w.bp[2] * 1.1 < w.psat))
            # (reference kept in relative mode with molar loadings: see the known finding on the reference look-up)
            extra['reference'] = w.iso_in(dict(CANON, pressure_mode='relative', pressure_unit=None), 'ads', stretch=True)
        with isofix.interp_patch(h):
            ref_res, ref_calls = wrappers.run(name, canon_iso, extra)
        cid0 = f'C15/{name}/{branch}'
        h.claim(f'{cid0}/canonical-run-returns', not isinstance(ref_res, Exception) and len(ref_calls) >= (0 if name == 'initial_enthalpy_point' else 1),
                info=repr(ref_res)[:200])
        if isinstance(ref_res, Exception):
            return
        for S in Ss:
            if name == 'alpha_s' and O.tol(S['pressure_unit']) > 1e-9:
                continue        # rounded constant (torr, mmHg) amplified without bound by the reference interpolation
            # material representation of the data changes what "per unit material" means: compare with the canonical
            # isotherm expressed per that material unit
            ref_c, ref_r = ref_calls, ref_res
            if (S['material_basis'], S['material_unit']) != (CANON['material_basis'], CANON['material_unit']) and name != 'psd_dft':
                cm = w.iso_in(dict(CANON, material_basis=S['material_basis'], material_unit=S['material_unit']), branch)
                ex2 = dict(extra)
                with isofix.interp_patch(h):
                    ref_r, ref_c = wrappers.run(name, cm, ex2)
            iso = w.iso_in(S, branch)
            with isofix.interp_patch(h):
                res, calls = wrappers.run(name, iso, extra)
            cid = f'{cid0}/{rep_tag(S)}'
            if isinstance(res, Exception):
                h.claim(f'{cid}/returns', False, info=repr(res)[:200])
                continue
            ok, why = leaves_equal(h, [c[0] for c in calls] + [c[1] for c in calls], [c[0] for c in ref_c] + [c[1] for c in ref_c], rep_tol(S))
            h.claim(f'{cid}/kernel-arguments-independent-of-stored-units', ok, info=why)
            if name == 'initial_enthalpy_point':
                h.claim(f'{cid}/result', h.eq(res['initial_enthalpy'], ref_r['initial_enthalpy']))


def h_alpha_s_reference(h, Ss):
    """alpha_s: the *reference* isotherm is converted, the sample stays canonical"""
    with stubs.exact_unit_tables(h):
        w = World(h)
        h.assume((w.bp[0] < w.psat * 0.3) & (w.bp[2] > w.psat * 0.5) & (w.bp[2] * 1.1 < w.psat))
        sample = w.iso_in(dict(CANON, pressure_mode='relative', pressure_unit=None), 'ads')
        with isofix.interp_patch(h):
            ref_res, ref_calls = wrappers.run('alpha_s', sample, {'reference': w.iso_in(dict(CANON, pressure_mode='relative', pressure_unit=None), 'ads', stretch=True)})
        h.claim('C15/alpha_s-reference/canonical-run-returns', not isinstance(ref_res, Exception), info=repr(ref_res)[:200])
        for S in Ss:
            if (S['pressure_mode'], S['pressure_unit']) == (CANON['pressure_mode'], CANON['pressure_unit']) and S != CANON:
                # loading / material / temperature variations are applied to a reference stored in relative mode
                # (an absolute-mode reference is inside the known-finding region and would mask them)
                S = dict(S, pressure_mode='relative', pressure_unit=None)
            with isofix.interp_patch(h):
                res, calls = wrappers.run('alpha_s', sample, {'reference': w.iso_in(S, 'ads', stretch=True)})
            cid = f'C15/alpha_s-reference/{rep_tag(S)}'
            regs = {'reference-not-stored-in-relative-mode': S['pressure_mode'] != 'relative',
                    'reference-loading-basis-not-molar': S['loading_basis'] != 'molar'}
            if isinstance(res, Exception):
                h.claim(f'{cid}/returns', False, regs, info=repr(res)[:200])
                continue
            # only the alpha_s_raw call (area_BET of the reference is stubbed)
            a = [c for c in calls if len(c[0]) >= 3]
            b = [c for c in ref_calls if len(c[0]) >= 3]

            def parts(c):
                args = list(c[0])
                asp = numpy.asarray(args[2], dtype=object).item() if isinstance(args[2], numpy.ndarray) else args[2]
                return args[0], list(numpy.asarray(args[1], dtype=object).ravel()), asp, args[3:] + [c[1]]
            ok, why = (len(a) == 1 and len(b) == 1), 'number of kernel calls'
            if ok:
                la, ra, aa, oa = parts(a[0])
                lb, rb, ab_, ob_ = parts(b[0])
                ok, why = leaves_equal(h, [la, oa], [lb, ob_], rep_tol(S))
                if ok is not False and len(ra) == len(rb):
                    # the reference enters only through the dimensionless alpha curve reference_loading / alpha_s_point:
                    # compared cross-multiplied (no division by a symbolic quantity)
                    same_material = (S['material_basis'], S['material_unit']) == (CANON['material_basis'], CANON['material_unit'])
                    for x, y in zip(ra, rb):
                        ok = ok & h.close(x * ab_, y * aa, rep_tol(S))
                        if same_material:       # area = A_ref / n_ref(0.4) * slope: the reference loadings themselves (mmol)
                            ok = ok & h.close(x, y, rep_tol(S))
                    if same_material:
                        ok = ok & h.close(aa, ab_, rep_tol(S))
                elif len(ra) != len(rb):
                    ok, why = False, 'reference loading length'
            h.claim(f'{cid}/kernel-arguments-independent-of-reference-units', ok, regs, info=why)


def h_henry(h, Ss):
    """initial_henry_slope: data handed to the Henry fit are the isotherm's own numbers; the constant scales by the unit factors"""
    import pygaps.characterisation.initial_henry as ih
    with stubs.exact_unit_tables(h):
        w = World(h)

        class FakeHenry:
            def __init__(s):
                s.params = {'K': None}
                s.rmse = 0.0
                s.fits = []

            def initial_guess(s, p, l):
                return {'K': 1.0}

            def fit(s, p, l, guess, *a, **k):
                p = list(numpy.asarray(p, dtype=object).ravel())
                l = list(numpy.asarray(l, dtype=object).ravel())
                s.fits.append((p, l))
                # exact Henry data contract: K = slope through the origin of the last point
                s.params['K'] = l[-1] / p[-1]

        def run(iso):
            fh = FakeHenry()
            with stubs.patched((ih, 'get_isotherm_model', lambda name: fh)):
                K = ih.initial_henry_slope(iso)
            return K, fh.fits[-1]

        K0, (p0, l0) = run(w.iso_in(CANON))
        for S in Ss:
            K, (p, l) = run(w.iso_in(S))
            cid = f'C15/initial_henry_slope/{rep_tag(S)}'
            dp, dn = w.data_of(S, w.bp, w.bn)
            ok = len(p) == len(p0)
            r = True
            if ok:
                for a, b in zip(p[1:], dp):
                    r = r & h.close(a, b, rep_tol(S))
                for a, b in zip(l[1:], dn):
                    r = r & h.close(a, b, rep_tol(S))
            h.claim(f'{cid}/fit-receives-the-isotherm-own-numbers', ok and r)
            # K_A = K_canon * F_loading / F_pressure   (factors read off one data point with the oracle)
            h.claim(f'{cid}/constant-scales-by-exactly-the-unit-factors', h.close(K * dp[-1] / dn[-1], K0 * w.bp[-1] / w.bn[-1], rep_tol(S)))


def h_isosteric(h, Ss):
    import pygaps.characterisation.isosteric_enth as ie
    with stubs.exact_unit_tables(h):
        w = World(h)
        rec = wrappers.Rec(([0], [0], [0], [0]))
        T2 = w.TK       # (the regression kernel is a recorder: equal temperatures keep relative-mode data of both isotherms consistent)

        def run(S1, S2):
            a = w.iso_in(S1)
            b = w.iso_in(S2)
            b._temperature = (T2 if S2['temperature_unit'] == 'K' else T2 - 273.15)
            lp = list(a.data_raw['loading'])
            l0 = lp[0] + (lp[1] - lp[0]) / 2
            rec.calls = []
            with isofix.interp_patch(h), stubs.patched((ie, 'isosteric_enthalpy_raw', rec)):
                try:
                    ie.isosteric_enthalpy([a, b], loading_points=isofix.column(h, [l0]))
                except Exception as e:      # noqa: BLE001
                    return e
            return rec.calls[-1][0]

        ref = run(CANON, CANON)
        h.claim('C15/isosteric/canonical-run-returns', not isinstance(ref, Exception), info=repr(ref)[:200])
        for S in Ss:
            if S['loading_basis'] != CANON['loading_basis'] or S['material_basis'] != CANON['material_basis']:
                continue            # the routine demands a common loading / material basis (documented)
            if O.tol(S['pressure_unit'], S['loading_unit'], S['material_unit']) > 1e-9:
                continue            # rounded library constants: the interpolation amplifies the 1e-4 difference without bound
            for which, (S1, S2) in (('both', (S, S)), ('second-only', (CANON, S))):
                got = run(S1, S2)
                cid = f'C15/isosteric/{which}/{rep_tag(S)}'
                if isinstance(got, Exception):
                    h.claim(f'{cid}/returns-or-refuses-mixed-units', type(got).__name__ in ('ParameterError', 'CalculationError'), info=repr(got)[:160])
                    continue
                P, Ts = got
                P0, Ts0 = ref
                okT = h.close(Ts[0], Ts0[0], 1e-12) & h.close(Ts[1], Ts0[1], 1e-12)
                h.claim(f'{cid}/temperatures-in-kelvin', okT)
                # pressures at the same physical loading: both columns in one common unit, i.e. the *ratio* of the two
                # columns (which is all the slope of ln p against 1/T depends on) is the canonical ratio
                P = numpy.asarray(P, dtype=object)
                P0 = numpy.asarray(P0, dtype=object)
                h.claim(f'{cid}/pressure-columns-in-a-common-unit', h.close(P[0, 0] * P0[0, 1], P0[0, 0] * P[0, 1], rep_tol(S)),
                        {'mixed-pressure-units': (S1['pressure_mode'], S1['pressure_unit']) != (S2['pressure_mode'], S2['pressure_unit'])})


def h_homogeneity(h, which):
    """kernels: loadings * c  =>  extensive results * c, intensive unchanged"""
    from scipy import stats
    c = h.real('c_scale', pos=True)
    k = 3
    ps = isofix.increasing(h, [f'p{i}' for i in range(k)])
    h.assume(ps[-1] < 1)
    ns = isofix.increasing(h, [f'n{i}' for i in range(k)])
    sigma = h.real('sigma', pos=True)

    class Lin:
        """exact regression of 3 points is not needed: the same (slope, intercept) relation under scaling is what matters:
        least squares is linear in y, so y -> c*y gives (c*slope, c*intercept), y -> y/c gives (slope/c, intercept/c)"""
        def __init__(s):
            s.n = 0
            s.base = None

        def __call__(s, x, y=None, **kw):
            ys = list(numpy.asarray(y, dtype=object).ravel())
            if s.base is None:
                s.base = (ys, h.real('slope0'), h.real('icpt0'))
                h.assume((s.base[1] != 0) & (s.base[2] != 0) & (s.base[1] + s.base[2] != 0))
                if not h.sym:
                    s.base = (ys, numpy.float64(s.base[1]), numpy.float64(s.base[2]))
                return (s.base[1], s.base[2], h.real('r0'), 0.0, 0.0)
            f = ys[0] / s.base[0][0]        # common factor of the ordinates (checked below)
            s.factor = f
            s.scaled = ys
            return (s.base[1] * f, s.base[2] * f, h.real('r0'), 0.0, 0.0)

    lin = Lin()
    cid = f'C15/homogeneity/{which}'
    with stubs.patched((stats, 'linregress', lin)):
        if which == 'BET':
            import pygaps.characterisation.area_bet as ab
            a = ab.area_BET_raw(isofix.column(h, ps), isofix.column(h, ns), sigma, (ps[0] / 2, None))
            b = ab.area_BET_raw(isofix.column(h, ps), isofix.column(h, [n * c for n in ns]), sigma, (ps[0] / 2, None))
            h.claim(f'{cid}/area,n_m-scale', h.close(b[0], a[0] * c, 1e-9) & h.close(b[2], a[2] * c, 1e-9))
            h.claim(f'{cid}/C,p_m-unchanged', h.close(b[1], a[1], 1e-9) & h.close(b[3], a[3], 1e-9))
        elif which == 'Langmuir':
            import pygaps.characterisation.area_lang as al
            a = al.area_langmuir_raw(isofix.column(h, ps), isofix.column(h, ns), sigma, (ps[0] / 2, None))
            b = al.area_langmuir_raw(isofix.column(h, ps), isofix.column(h, [n * c for n in ns]), sigma, (ps[0] / 2, None))
            h.claim(f'{cid}/area,n_m-scale', h.close(b[0], a[0] * c, 1e-9) & h.close(b[2], a[2] * c, 1e-9))
            h.claim(f'{cid}/K-unchanged', h.close(b[1], a[1], 1e-9))
        elif which == 't-plot':
            import pygaps.characterisation.t_plots as tp
            from .c16 import table_fn
            ts = isofix.increasing(h, [f't{i}' for i in range(k)])
            tm = table_fn(h, ps, ts)
            M, rho = h.real('M', pos=True), h.real('rho', pos=True)
            lo, hi = ts[0] / 2, ts[-1] * 2
            ra, _ = tp.t_plot_raw(isofix.column(h, ns), isofix.column(h, ps), tm, rho, M, (lo, hi))
            rb, _ = tp.t_plot_raw(isofix.column(h, [n * c for n in ns]), isofix.column(h, ps), tm, rho, M, (lo, hi))
            if ra and rb:
                h.claim(f'{cid}/area,volume-scale', h.close(rb[0]['area'], ra[0]['area'] * c, 1e-9)
                        & h.close(rb[0]['adsorbed_volume'], ra[0]['adsorbed_volume'] * c, 1e-9))
            else:
                h.claim(f'{cid}/dropped-by-the-documented-slope-filter(no claim)', True)


def h_bet_auto_window_scale(h, k, cval=None):
    """the automatically chosen BET window does not depend on the scale of the loadings (symbolic scale factor, or a concrete
    change of unit such as mol -> umol, which keeps the queries quadratic)"""
    import pygaps.characterisation.area_bet as ab
    from scipy import stats
    from pygaps.utilities.exceptions import CalculationError
    c = h.real('c_scale', pos=True) if cval is None else cval
    ps = isofix.increasing(h, [f'p{i}' for i in range(k)])
    h.assume(ps[-1] < 1)
    ns = [h.real(f'n{i}', pos=True) for i in range(k)]
    sigma = h.real('sigma', pos=True)

    class _WindowKnown(BaseException):
        """raised by the regression stub: the window is the slice that reaches the regression; what follows (parameter
        plausibility warnings) multiplies paths without touching the window"""

    def run(scale):
        def lr(x, y=None, **kw):
            xs = list(numpy.asarray(x, dtype=object).ravel())
            idx = [[i for i, p in enumerate(ps) if (v is p) or (not h.sym and v == p)][0] for v in xs]
            raise _WindowKnown(idx)
        with stubs.patched((stats, 'linregress', lr)):
            try:
                ab.area_BET_raw(isofix.column(h, ps), isofix.column(h, [n * c for n in ns] if scale else ns), sigma, None)
                return 'no-regression'
            except CalculationError:
                return 'refused'
            except _WindowKnown as w:
                return tuple(w.args[0])
    a = run(False)
    b = run(True)
    h.claim(f'C15/homogeneity/BET-auto-window/k={k}{"" if cval is None else "/scale=" + str(cval)}/same-window-for-scaled-loadings', a == b, info=f'{a} vs {b}')


def h_meso_homogeneity(h, method):
    import pygaps.characterisation.psd_meso as pm
    from .c16 import setup, arr, METHODS
    c = h.real('c_scale', pos=True)
    ps, vs, ts, rk, tm, km = setup(h, 3, False)
    a = getattr(pm, METHODS[method])(arr(h, vs), arr(h, ps), 'cylinder', tm, km)
    b = getattr(pm, METHODS[method])(arr(h, [v * c for v in vs]), arr(h, ps), 'cylinder', tm, km)
    ok = True
    for i in range(2):
        ok = ok & h.close(b['pore_volumes'][i], a['pore_volumes'][i] * c, 1e-9) & h.close(b['pore_distribution'][i], a['pore_distribution'][i] * c, 1e-9) \
            & h.eq(b['pore_widths'][i], a['pore_widths'][i])
    h.claim(f'C15/homogeneity/{method}/volumes,distribution-scale;widths-unchanged', ok)


def obligations(tier):
    obs = []
    kw = dict(funcs=FUNCS, stubs=['FakeState', 'kernel recorders', 'interp1d stub', 'exact unit tables'], timeout_s=30 if tier == 'quick' else 120,
              validate=1, wall_s=900)
    R = reps(tier)
    chunks = [R[i::4] for i in range(4)]
    for name in wrappers.entries():
        for branch in (('ads', 'des') if name in ('area_BET', 'psd_mesoporous[pygaps-DH]', 'psd_dft') else ('ads',)):
            for ci, ch in enumerate(chunks):
                obs.append(Obligation(f'C15/{name}/{branch}/chunk{ci}', h_entry, (name, branch, ch), bounds=f'k=3; {len(ch)} representations', **kw))
    for ci, ch in enumerate(chunks):
        obs.append(Obligation(f'C15/alpha_s-reference/chunk{ci}', h_alpha_s_reference, (ch,), bounds=f'k=3; {len(ch)} representations', **kw))
        obs.append(Obligation(f'C15/initial_henry_slope/chunk{ci}', h_henry, (ch,), bounds=f'k=3; {len(ch)} representations', **kw))
        obs.append(Obligation(f'C15/isosteric/chunk{ci}', h_isosteric, (ch,), bounds=f'k=3; {len(ch)} representations', **kw))
    for wch in ('BET', 'Langmuir', 't-plot'):
        obs.append(Obligation(f'C15/homogeneity/{wch}', h_homogeneity, (wch,), bounds='k=3; symbolic scale factor', **kw))
    for k in ((3, 4) if tier == 'quick' else (3, 4, 5, 6)):
        obs.append(Obligation(f'C15/homogeneity/BET-auto-window/k={k}', h_bet_auto_window_scale, (k,), bounds=f'k={k}; symbolic scale factor', **kw))
        from fractions import Fraction
        for cv in (Fraction(1, 10**6), Fraction(10**6)):
            obs.append(Obligation(f'C15/homogeneity/BET-auto-window/k={k}/scale={cv}', h_bet_auto_window_scale, (k, cv),
                                  bounds=f'k={k}; loadings rescaled by {cv} (a change of unit)', **kw))
    for m in ('pygaps-DH', 'BJH', 'DH'):
        obs.append(Obligation(f'C15/homogeneity/{m}', h_meso_homogeneity, (m,), bounds='k=3; symbolic scale factor', **kw))
    return obs
