"""C08 - the SQLite store behaves as a keyed collection (inductive step against a dictionary model)."""
import copy

from ..core import Obligation
from .. import sqlstore as S, isofix
from .c09 import catalogue, items

ASSUMPTIONS = [
    'induction over histories: one operation from an arbitrary store state.  The state is built on the real sqlite3 engine from '
    'symbolic presence bits (which catalogue items are in the target file) and, independently, symbolic membership bits of the '
    'in-memory registries MATERIAL_LIST / ADSORBATE_LIST (what "earlier uploads in the session / other files" amount to); the '
    'explorer forks over all combinations',
    'oracle: a plain dictionary model that reads the database content only; item catalogue with concrete values (one adsorbate '
    'with a list-valued property, one material, one point isotherm with an extra column, a second isotherm)',
    'a symbolic bit "earlier in this session the same items were uploaded to another file" precedes every step (session memos must be invisible)',
    'SQLite itself and type affinity of stored values are trusted',
]
LEVEL = 'model_checking'
FUNCS = ['pygaps.parsing.sqlite:adsorbate_to_db', 'pygaps.parsing.sqlite:adsorbates_from_db', 'pygaps.parsing.sqlite:adsorbate_delete_db',
         'pygaps.parsing.sqlite:material_to_db', 'pygaps.parsing.sqlite:materials_from_db', 'pygaps.parsing.sqlite:material_delete_db',
         'pygaps.parsing.sqlite:isotherm_to_db', 'pygaps.parsing.sqlite:isotherms_from_db', 'pygaps.parsing.sqlite:isotherm_delete_db',
         'pygaps.parsing.sqlite:with_connection']


def props_of(obj):
    d = obj.to_dict()
    d.pop('name')
    out = []
    for t, v in d.items():
        for x in (v if isinstance(v, (list, tuple, set)) else [v]):
            out.append((t, x))
    return sorted(out)


def model_upload(M, fam, obj, overwrite, autoinsert):
    """dictionary model of <fam>_to_db; returns (refused?, new state)"""
    M = copy.deepcopy(M)
    name = obj.name
    tkey = fam + '_types'
    props = props_of(obj)
    if overwrite != (name in M[fam]):
        return True, M                      # duplicate upload / overwrite of an absent item
    missing = {t for t, _ in props} - set(M[tkey])
    if missing and not autoinsert:
        return True, M                      # unknown reference (property type)
    M[tkey] = sorted(set(M[tkey]) | {t for t, _ in props}) if autoinsert else M[tkey]
    M[fam][name] = props
    return False, M


def model_delete(M, fam, obj):
    M = copy.deepcopy(M)
    if obj.name not in M[fam]:
        return True, M
    col = 'adsorbate' if fam == 'ads' else 'material'
    if any(i[col] == obj.name for i in M['iso'].values()):
        return True, M
    del M[fam][obj.name]
    return False, M


def strip(c):
    c = copy.deepcopy(c)
    c.pop('orphans', None)
    return c


def warm_up(h, cat, fam):
    """"earlier in the session": (symbolic bit) the same items were uploaded, with auto-insert, to ANOTHER file and - for the
    families with an upload that can be undone - uploaded and deleted again.  Nothing of that may change what the step on the
    target file does (the dictionary model reads the target file only)."""
    import pygaps.parsing.sqlite as ps
    if not h.flag('earlier_uploads_to_another_file_in_this_session'):
        return
    other = S.new_db()
    ads, mat = cat[0], cat[1]
    with S.registries(mats=[mat], adss=[ads]):
        if fam in ('ads', 'iso'):
            ps.adsorbate_to_db(ads, db_path=other, autoinsert_properties=True, verbose=False)
        if fam in ('mat', 'iso'):
            ps.material_to_db(mat, db_path=other, autoinsert_properties=True, verbose=False)
        if fam == 'iso':
            ps.isotherm_to_db(cat[2], db_path=other, verbose=False)
            ps.isotherms_from_db(db_path=other, verbose=False)


def h_item(h, fam, op, overwrite):
    ps = S.fresh_sqlite_module()
    from pygaps.utilities.exceptions import ParsingError
    try:
        cat = catalogue()
        obj = cat[0] if fam == 'ads' else cat[1]
        path = S.new_db()
        its = {k: v for k, v in items(cat[0], cat[1]).items() if k.startswith(fam)}
        present = S.prestate(path, h, its)
        in_registry = h.flag('in_registry')
        warm_up(h, cat, fam)
        referenced = False
        if op == 'delete' and present[fam] and h.flag('referenced_by_an_isotherm'):
            other = cat[1] if fam == 'ads' else cat[0]
            with S.registries(mats=[cat[1]] if (fam == 'mat') else [], adss=[cat[0]] if fam == 'ads' else []):
                ps.isotherm_to_db(cat[2], db_path=path, verbose=False)
            referenced = True
        pre = S.content(path)
        autoinsert = h.flag('autoinsert') if op == 'upload' else True
        reg = dict(mats=[cat[1]] if (fam == 'mat' and in_registry) else [], adss=[cat[0]] if (fam == 'ads' and in_registry) else [])
        with S.registries(**reg):
            try:
                if op == 'upload':
                    (ps.adsorbate_to_db if fam == 'ads' else ps.material_to_db)(obj, db_path=path, overwrite=overwrite,
                                                                               autoinsert_properties=autoinsert, verbose=False)
                else:
                    (ps.adsorbate_delete_db if fam == 'ads' else ps.material_delete_db)(obj, db_path=path, verbose=False)
                exc = None
            except ParsingError as e:
                exc = S.detach(e)
            post = S.content(path)
            refused, want = (model_upload(strip(pre), fam, obj, overwrite, autoinsert) if op == 'upload' else model_delete(strip(pre), fam, obj))
            cid = f'C08/{fam}/{op}/overwrite={overwrite}'
            h.claim(f'{cid}/refused-iff-the-dictionary-model-refuses', (exc is not None) == refused,
                    info=f'present={present} autoinsert={autoinsert} registry={in_registry} referenced={referenced}: {exc!r}'[:200])
            h.claim(f'{cid}/content-equals-the-dictionary-model', strip(post) == want and post['orphans'] == 0,
                    info=f'present={present} autoinsert={autoinsert} registry={in_registry}')
            if exc is not None:
                h.claim(f'{cid}/refused=>nothing-changed', post == pre)
            # retrieval: what comes back equals the stored items
            got = (ps.adsorbates_from_db if fam == 'ads' else ps.materials_from_db)(db_path=path, verbose=False)
            back = {g.name: props_of(g) for g in got}
            # (values come back through sqlite's type affinity: compare as strings)
            norm = lambda d: {k: sorted((t, str(v)) for t, v in ps_) for k, ps_ in d.items()}
            h.claim(f'{cid}/retrieval-returns-exactly-the-stored-items', norm(back) == norm({k: v for k, v in post[fam].items()}),
                    info=str(back)[:200])
    finally:
        S.cleanup()


def h_isotherm(h, op):
    import pygaps
    ps = S.fresh_sqlite_module()
    from pygaps.utilities.exceptions import ParsingError
    try:
        ads, mat, iso = catalogue()
        int_meta = h.flag('integer_valued_metadata')
        if not int_meta:
            iso.properties['number'] = 3.5
        path = S.new_db()
        present = S.prestate(path, h, {k: v for k, v in items(ads, mat).items() if k in ('ads', 'mat')})
        reg_m, reg_a = h.flag('material_in_registry'), h.flag('adsorbate_in_registry')
        warm_up(h, (ads, mat, iso), 'iso')
        iso_present = False
        if present['ads'] and present['mat'] and h.flag('present_iso'):
            with S.registries(mats=[mat], adss=[ads]):
                ps.isotherm_to_db(iso, db_path=path, verbose=False)
            iso_present = True
        pre = S.content(path)
        cid = f'C08/isotherm/{op}'
        with S.registries(mats=[mat] if reg_m else [], adss=[ads] if reg_a else []):
            if op == 'upload':
                am, aa = h.flag('autoinsert_material'), h.flag('autoinsert_adsorbate')
                try:
                    ps.isotherm_to_db(iso, db_path=path, autoinsert_material=am, autoinsert_adsorbate=aa, verbose=False)
                    exc = None
                except ParsingError as e:
                    exc = S.detach(e)
                post = S.content(path)
                refused = iso_present or (not present['mat'] and not am) or (not present['ads'] and not aa)
                regs = {'registry-disagrees-with-file': (am and reg_m != present['mat']) or (aa and reg_a != present['ads']),
                        'integer-metadata-comes-back-as-float': int_meta,
                        'material-not-in-session-registry': not reg_m}
                h.claim(f'{cid}/refused-iff-the-dictionary-model-refuses', (exc is not None) == refused, regs,
                        info=f'present={present} iso={iso_present} autoinsert=({am},{aa}) registry=({reg_m},{reg_a}): {exc!r}'[:220])
                if exc is not None:
                    h.claim(f'{cid}/refused=>nothing-changed', post == pre, regs)
                else:
                    ok = (iso.iso_id in post['iso'] and mat.name in post['mat'] and ads.name in post['ads'] and post['orphans'] == 0
                          and len(post['iso']) == len(pre['iso']) + 1)
                    h.claim(f'{cid}/stored-with-its-references', ok, regs)
                    got = ps.isotherms_from_db(db_path=path, verbose=False)
                    mine = [g for g in got if g.iso_id == iso.iso_id]
                    h.claim(f'{cid}/retrieved-isotherm-equals-the-stored-one', len(mine) == 1 and mine[0] == iso
                            and type(mine[0]) is type(iso), regs, info=str([g.iso_id for g in got]))
                    if mine:
                        try:
                            ps.isotherm_delete_db(mine[0], db_path=path, verbose=False)
                            derr = None
                        except ParsingError as e:
                            derr = S.detach(e)
                        after = S.content(path)
                        h.claim(f'{cid}/can-be-deleted-through-the-retrieved-object', derr is None and iso.iso_id not in after['iso']
                                and after['orphans'] == 0, regs, info=repr(derr)[:120])
            else:
                try:
                    ps.isotherm_delete_db(iso, db_path=path, verbose=False)
                    exc = None
                except ParsingError as e:
                    exc = S.detach(e)
                post = S.content(path)
                h.claim(f'{cid}/refused-iff-absent', (exc is not None) == (not iso_present))
                want = copy.deepcopy(pre)
                want['iso'].pop(iso.iso_id, None)
                h.claim(f'{cid}/removes-exactly-that-item', post == want)
    finally:
        S.cleanup()


def h_delete_by_name(h, fam):
    """deletion by NAME STRING removes exactly the row of that name - also when the string is an alias (or a case variant of the
    name) of another item that the session knows"""
    ps = S.fresh_sqlite_module()
    from pygaps.core.adsorbate import Adsorbate
    from pygaps.core.material import Material
    from pygaps.utilities.exceptions import ParsingError
    try:
        cat = catalogue()
        path = S.new_db()
        if fam == 'ads':
            main, other_name = cat[0], 'GA'          # 'GA' is an alias of gasA
            table = 'adsorbates'
        else:
            main, other_name = cat[1], 'MATM'        # a case variant of matM
            table = 'materials'
        p_main, p_other = h.flag('named_item_present'), h.flag('item_with_the_alias_as_its_name_present')
        if p_main:
            S.raw(path, f'INSERT INTO {table} (name) VALUES (?)', (main.name,))
        if p_other:
            S.raw(path, f'INSERT INTO {table} (name) VALUES (?)', (other_name,))
        in_reg = h.flag('in_registry')
        pre = S.content(path)
        with S.registries(mats=[cat[1]] if in_reg else [], adss=[cat[0]] if in_reg else []):
            try:
                (ps.adsorbate_delete_db if fam == 'ads' else ps.material_delete_db)(other_name, db_path=path, verbose=False)
                exc = None
            except ParsingError as e:
                exc = S.detach(e)
        post = S.content(path)
        cid = f'C08/{fam}/delete-by-name-string'
        h.claim(f'{cid}/refused-iff-no-row-of-that-name', (exc is not None) == (not p_other), info=f'{exc!r}'[:120])
        want = copy.deepcopy(pre)
        want[fam].pop(other_name, None)
        h.claim(f'{cid}/removes-exactly-the-row-of-that-name', post == want, info=f'before {sorted(pre[fam])[-3:]} after {sorted(post[fam])[-3:]}')
    finally:
        S.cleanup()


def h_many_isotherms(h, n):
    """retrieval returns every stored isotherm also across the internal batching of 100 (the bound is read off the code:
    isotherms_from_db processes the rows in groups of 100)"""
    ps = S.fresh_sqlite_module()
    from pygaps.core.baseisotherm import BaseIsotherm
    try:
        ads, mat, iso = catalogue()
        path = S.new_db()
        reach = h.flag('reach')
        with S.registries(mats=[mat], adss=[ads]):
            ps.adsorbate_to_db(ads, db_path=path, verbose=False)
            ps.material_to_db(mat, db_path=path, verbose=False)
            isos = [BaseIsotherm(material=mat, adsorbate='gasA', temperature=77.0, **isofix.DEFAULT_UNITS, serial=float(i) + 0.5) for i in range(n)]
            for i in isos:
                ps.isotherm_to_db(i, db_path=path, verbose=False)
            got = ps.isotherms_from_db(db_path=path, verbose=False)
            some = ps.isotherms_from_db(criteria={'temperature': 77.0}, db_path=path, verbose=False)
        want = sorted(i.iso_id for i in isos)
        h.claim(f'C08/isotherm/retrieval/n={n}/all-stored-isotherms-come-back', sorted(g.iso_id for g in got) == want, info=f'{len(got)} of {n}')
        h.claim(f'C08/isotherm/retrieval/n={n}/criteria-retrieval-complete', sorted(g.iso_id for g in some) == want, info=f'{len(some)} of {n}')
    finally:
        S.cleanup()


def obligations(tier):
    obs = []
    kw = dict(funcs=FUNCS, stubs=['real sqlite3 scratch files; registries replaced per path'], timeout_s=30, validate=1, max_paths=5000, wall_s=1200)
    for fam in ('ads', 'mat'):
        for ow in (False, True):
            obs.append(Obligation(f'C08/{fam}/upload/overwrite={ow}', h_item, (fam, 'upload', ow),
                                  bounds='all presence subsets x autoinsert x registry membership', **kw))
        obs.append(Obligation(f'C08/{fam}/delete', h_item, (fam, 'delete', False), bounds='all presence subsets x referenced or not', **kw))
    for op in ('upload', 'delete'):
        obs.append(Obligation(f'C08/isotherm/{op}', h_isotherm, (op,), bounds='all presence subsets x flags x registry membership', **kw))
    for fam in ('ads', 'mat'):
        obs.append(Obligation(f'C08/{fam}/delete-by-name-string', h_delete_by_name, (fam,), bounds='presence of the named row / of a row whose name is an alias or case variant x registry membership', **kw))
    for n in ((101,) if tier == 'quick' else (100, 101, 201)):
        obs.append(Obligation(f'C08/isotherm/retrieval/n={n}', h_many_isotherms, (n,), bounds=f'{n} metadata-only isotherms (batch size in the code: 100)', **kw))
    return obs
