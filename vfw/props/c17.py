"""C17 - Horvath-Kawazoe: slit / sphere potential equations, solver wiring, post-processing (reduced claim)."""
import fractions
import math
import types

import numpy

from ..core import Obligation
from .. import symx, stubs, isofix

F = fractions.Fraction
ASSUMPTIONS = [
    'the potential closures of psd_horvath_kawazoe are captured by replacing _solve_hk / _solve_hk_cy with a recorder and are then '
    'evaluated on a symbolic pore size L; compared (relative 1e-6, L at least 1e-3 nm above the geometric pole) with the published '
    'Horvath-Kawazoe slit equation and the Cheng-Yang sphere equation written independently; adsorbent parameters: the three '
    'shipped sets; adsorbate parameters: N2, Ar, CO2 literature values; temperature symbolic',
    'scipy.optimize.minimize_scalar replaced by a recorder returning a symbolic pore size inside the bounds handed over; that the '
    'bounded scalar minimiser finds the root, and monotonicity of the widths, are NOT claimed',
    'HK cylinder potential (Saito-Foley series, int(25 L) - 1 terms in the code): decided for the pore radius in windows [n/25, (n+1)/25) nm '
    'with concrete temperature, against the published series summed to 2n terms, relative tolerance 5e-3 (the code\'s own truncation '
    'error reaches 4.2e-3 for L <= 3 nm with the shipped sets); the radius is parametrised as L = d0/(1-u) so that all terms are polynomials in u',
    'the Rege-Yang potentials (all geometries) are outside the encoding',
]
FUNCS = ['pygaps.characterisation.psd_micro:psd_horvath_kawazoe', 'pygaps.characterisation.psd_micro:_solve_hk',
         'pygaps.characterisation.psd_micro:_solve_hk_cy', 'pygaps.characterisation.psd_micro:_dispersion_from_dict',
         'pygaps.characterisation.psd_micro:_N_over_RT', 'pygaps.characterisation.models_hk:get_hk_model']
# CODATA constants (independent of scipy)
ME, C0, NA, RG = 9.1093837015e-31, 299792458.0, 6.02214076e23, 8.314462618
ADSORBATES = {
    'N2': dict(molecular_diameter=0.3, polarizability=1.46e-3, magnetic_susceptibility=2.0e-8, surface_density=6.7e18),
    'Ar': dict(molecular_diameter=0.336, polarizability=1.63e-3, magnetic_susceptibility=3.25e-8, surface_density=8.52e18),
    'CO2': dict(molecular_diameter=0.323, polarizability=2.7e-3, magnetic_susceptibility=5.0e-8, surface_density=7.687e18),
}


def dispersion(ads, mat):
    pa, pm = ads['polarizability'] * 1e-27, mat['polarizability'] * 1e-27
    ma, mm = ads['magnetic_susceptibility'] * 1e-27, mat['magnetic_susceptibility'] * 1e-27
    a_ads = 1.5 * ME * C0 ** 2 * pa * ma
    a_mat = 6 * ME * C0 ** 2 * pa * pm / (pa / ma + pm / mm)
    return a_ads, a_mat


def capture(h, geometry, ads, mat, T, use_cy=False, k=3):
    """run the real psd_horvath_kawazoe with the solver functions replaced by recorders"""
    import pygaps.characterisation.psd_micro as pmi
    rec = types.SimpleNamespace()
    Ls = isofix.increasing(h, [f'L{i}' for i in range(k)])

    def solve(pressure, hk_fun, bound, geo):
        rec.kind, rec.hk, rec.bound, rec.geo, rec.p = 'hk', hk_fun, bound, geo, list(pressure)
        return list(Ls)

    def solve_cy(pressure, loading, hk_fun, bound, geo):
        rec.kind, rec.hk, rec.bound, rec.geo, rec.p, rec.loading = 'cy', hk_fun, bound, geo, list(pressure), loading
        return list(Ls)

    ps = isofix.increasing(h, [f'p{i}' for i in range(k)])
    ns = isofix.increasing(h, [f'n{i}' for i in range(k)])
    ap = dict(ads, liquid_density=h.real('rho', pos=True), adsorbate_molar_mass=h.real('M', pos=True))
    with stubs.patched((pmi, '_solve_hk', solve), (pmi, '_solve_hk_cy', solve_cy)):
        out = pmi.psd_horvath_kawazoe(isofix.column(h, ps), isofix.column(h, ns), T, geometry, ap, dict(mat), use_cy=use_cy)
    return rec, Ls, ps, ns, ap, out


def h_potential(h, geometry, ads_name, mat_name):
    import pygaps.characterisation.models_hk as mh
    ads, mat = ADSORBATES[ads_name], mh._ADSORBENT_MODELS[mat_name]
    T = h.real('T', pos=True)
    rec, Ls, ps, ns, ap, out = capture(h, geometry, ads, mat, T)
    d_a, d_s = ads['molecular_diameter'], mat['molecular_diameter']
    d0 = (d_a + d_s) / 2
    a_ads, a_mat = dispersion(ads, mat)
    n_a, n_s = ads['surface_density'], mat['surface_density']
    L = h.real('Lq', pos=True)
    cid = f'C17/potential/{geometry}/{ads_name}/{mat_name}'
    if geometry == 'slit':
        h.assume(L > 2 * d0 + 0.001)
        h.assume(L < 50)
        sig = (2.0 / 5.0) ** (1.0 / 6.0) * d0
        # RT ln(p/p0) = N_A (N_s A_s + N_a A_a) / (sigma^4 (L - 2 d0)) [ s^4/(3 (L-d0)^3) - s^10/(9 (L-d0)^9) - s^4/(3 d0^3) + s^10/(9 d0^9) ]
        pref = NA / (RG * T) * (n_s * a_mat + n_a * a_ads) / (sig * 1e-9) ** 4
        want = pref / (L - 2 * d0) * (sig ** 4 / (3 * (L - d0) ** 3) - sig ** 10 / (9 * (L - d0) ** 9)
                                      - sig ** 4 / (3 * d0 ** 3) + sig ** 10 / (9 * d0 ** 9))
        h.claim(f'{cid}/bounds==(2*d0,slit)', abs(float(rec.bound) - 2 * d0) < 1e-12 and rec.geo == 1)
    else:
        h.assume(L > d0 + 0.001)
        h.assume(L < 50)
        e12 = a_mat / (4 * (d0 * 1e-9) ** 6)
        e22 = a_ads / (4 * (d_a * 1e-9) ** 6)
        n1 = 4 * math.pi * (L * 1e-9) ** 2 * n_s
        n2 = 4 * math.pi * ((L - d0) * 1e-9) ** 2 * n_a
        r = (L - d0) / L

        def tt(x):
            s = 1 if x % 2 == 0 else -1
            return 1 / (1 + s * r) ** x - 1 / (1 - s * r) ** x
        want = NA / (RG * T) * 6 * (n1 * e12 + n2 * e22) * (L / (L - d0)) ** 3 * (
            -(d0 / L) ** 6 * (tt(3) / 12 + tt(2) / 8) + (d0 / L) ** 12 * (tt(9) / 90 + tt(8) / 80))
        h.claim(f'{cid}/bounds==(d0,radius-geometry)', abs(float(rec.bound) - d0) < 1e-12 and rec.geo == 2)
    got = rec.hk(L)
    h.claim(f'{cid}/potential==published-equation', h.close(got, want, 1e-6))
    h.claim(f'{cid}/plain-solver-used-without-CY', rec.kind == 'hk')


def h_potential_cylinder(h, ads_name, mat_name, n_terms, T):
    """HK cylinder (Saito-Foley series): the code sums int(25 L) - 1 terms; compared with the published series summed to twice as
    many terms (its remainder is below 2e-7 relative for L <= 3 nm), relative tolerance 5e-3: the code's documented truncation
    at 25 L terms is itself off by up to 4.2e-3 for L <= 3 nm with the shipped parameter sets (evaluated with 40-digit arithmetic).  The pore radius is written as
    L = d0 / (1 - u) with u symbolic, which keeps every term a polynomial in u (d0 / L = 1 - u); L ranges over the window
    [n/25, (n+1)/25) in which int(25 L) == n_terms."""
    import pygaps.characterisation.models_hk as mh
    ads, mat = ADSORBATES[ads_name], mh._ADSORBENT_MODELS[mat_name]
    rec, Ls, ps, ns, ap, out = capture(h, 'cylinder', ads, mat, T)
    d_a, d_s = ads['molecular_diameter'], mat['molecular_diameter']
    d0 = (d_a + d_s) / 2
    a_ads, a_mat = dispersion(ads, mat)
    n_a, n_s = ads['surface_density'], mat['surface_density']
    u = h.real('u', pos=True)
    h.assume(u < 1)
    # window n/25 <= L < (n+1)/25 stated on u (no division): 1 - u <= 25 d0 / n  and  1 - u > 25 d0 / (n + 1)
    d0q = symx._frac_of_float(d0)
    h.assume(1 - u <= 25 * d0q / n_terms)
    h.assume(1 - u > 25 * d0q / (n_terms + 1))
    L = d0 / (1 - u)
    cid = f'C17/potential/cylinder/{ads_name}/{mat_name}/int(25L)={n_terms}'
    h.claim(f'{cid}/bounds==(d0,radius-geometry)', abs(float(rec.bound) - d0) < 1e-12 and rec.geo == 2)
    got = rec.hk(L)
    # published: RT ln(p/p0) = 3/4 pi N_A (N_s A_s + N_a A_a) / d0^4 * sum_k 1/(k+1) (1 - d0/L)^(2k) [21/32 a_k (d0/L)^10 - b_k (d0/L)^4]
    x = 1 - u if h.sym else d0 / L
    M = 2 * n_terms
    ak, bk, ssum = F(1), F(1), 0
    for k in range(0, M):
        if k > 0:
            ak = (F(-9, 2) - k) ** 2 / F(k) ** 2 * ak
            bk = (F(-3, 2) - k) ** 2 / F(k) ** 2 * bk
        ssum = ssum + F(1, k + 1) * (1 - x) ** (2 * k) * (F(21, 32) * ak * x ** 10 - bk * x ** 4)
    if not h.sym:
        ssum = float(ssum)
    want = 0.75 * math.pi * NA / (RG * T) * (n_s * a_mat + n_a * a_ads) / (d0 * 1e-9) ** 4 * ssum
    h.claim(f'{cid}/potential==published-series(5e-3)', h.close(got, want, 5e-3))


def h_postprocess(h, geometry, use_cy):
    import pygaps.characterisation.models_hk as mh
    ads, mat = ADSORBATES['N2'], mh._ADSORBENT_MODELS['Carbon(HK)']
    T = h.real('T', pos=True)
    rec, Ls, ps, ns, ap, out = capture(h, geometry, ads, mat, T, use_cy=use_cy)
    avg_w, dist, vol = out
    d_s = mat['molecular_diameter']
    w = [(l if geometry == 'slit' else 2 * l) - d_s for l in Ls]
    v = [n * ap['adsorbate_molar_mass'] / ap['liquid_density'] / 1000 for n in ns]
    cid = f'C17/postprocess/{geometry}/cy={use_cy}'
    k = len(Ls)
    h.claim(f'{cid}/solver-variant', rec.kind == ('cy' if use_cy else 'hk'))
    ok = len(list(avg_w)) == k - 1 and len(list(dist)) == k - 1 and len(list(vol)) == k - 1
    r = True
    if ok:
        for i in range(k - 1):
            r = r & h.close(list(avg_w)[i], (w[i] + w[i + 1]) / 2, 1e-12)
            r = r & h.close(list(vol)[i], v[i + 1], 1e-12)
            r = r & h.close(list(dist)[i] * (w[i + 1] - w[i]), v[i + 1] - v[i], 1e-9, 1e-15)
    h.claim(f'{cid}/widths=solver-output-converted;volume=n*M/rho/1000;distribution=dV/dW', ok and r)
    okp = True
    for a, b in zip(rec.p, ps):
        okp = okp & h.eq(a, b)
    h.claim(f'{cid}/solver-gets-the-pressures', okp)


def h_end_to_end(h, geometry, use_cy):
    """the whole psd_horvath_kawazoe with only the scalar minimiser stubbed: cumulative volume is the adsorbed amount as
    liquid volume of the *caller's* loadings, the caller's arrays are not modified"""
    import pygaps.characterisation.psd_micro as pmi
    import pygaps.characterisation.models_hk as mh
    from scipy import optimize
    ads, mat = ADSORBATES['N2'], mh._ADSORBENT_MODELS['Carbon(HK)']
    T = h.real('T', pos=True)
    k = 3
    Ls = isofix.increasing(h, [f'L{i}' for i in range(k)], lo=1.0)
    h.assume(Ls[-1] < 4)
    it = iter(Ls)

    def ms(fun, method=None, bounds=None, **kw):
        return stubs.OptRes(x=next(it), success=True)

    ps = isofix.increasing(h, [f'p{i}' for i in range(k)])
    ns = isofix.increasing(h, [f'n{i}' for i in range(k)])
    ap = dict(ads, liquid_density=h.real('rho', pos=True), adsorbate_molar_mass=h.real('M', pos=True))
    pin, nin = isofix.column(h, ps), isofix.column(h, ns)
    with stubs.patched((optimize, 'minimize_scalar', ms)):
        avg_w, dist, vol = pmi.psd_horvath_kawazoe(pin, nin, T, geometry, ap, dict(mat), use_cy=use_cy)
    cid = f'C17/end-to-end/{geometry}/cy={use_cy}'
    v = [n * ap['adsorbate_molar_mass'] / ap['liquid_density'] / 1000 for n in ns]
    ok = len(list(vol)) == k - 1
    r = True
    if ok:
        for i in range(k - 1):
            r = r & h.close(list(vol)[i], v[i + 1], 1e-12)
    h.claim(f'{cid}/cumulative-volume==loading*M/rho/1000', ok and r)
    r2 = True
    for a, b in zip(list(nin) + list(pin), ns + ps):
        r2 = r2 & h.eq(a, b)
    h.claim(f'{cid}/caller-arrays-not-modified', r2)


def h_solver(h, cy):
    """_solve_hk / _solve_hk_cy: objective (exp(phi(L)) - p)^2 (with the CY correction), bounds (bound, 50), early stop"""
    import pygaps.characterisation.psd_micro as pmi
    from scipy import optimize
    calls = []
    p = [h.real('p0', pos=True), h.real('p1', pos=True)]
    n = isofix.increasing(h, ['n0', 'n1'])
    bound = h.real('bound', pos=True)
    h.assume(bound < 50)
    hk = lambda L: h.fun('phi', L)

    z = h.real('Lz', pos=True)

    def ms(fun, method=None, bounds=None, **kw):
        i = len(calls)
        x = h.real(f'Lsol{i}', pos=True)
        h.assume((x >= bounds[0]) & (x <= bounds[1]))
        # (the objective closes over the loop variable: it has to be evaluated while the solver is being called)
        calls.append(types.SimpleNamespace(fun=fun, method=method, bounds=bounds, x=x, at_z=fun(z)))
        return stubs.OptRes(x=x, success=True)

    with stubs.patched((optimize, 'minimize_scalar', ms)):
        if cy:
            out = pmi._solve_hk_cy(isofix.column(h, p), isofix.column(h, n), hk, bound, 2)
        else:
            out = pmi._solve_hk(isofix.column(h, p), hk, bound, 2)
    cid = f'C17/solver/cy={cy}'
    h.claim(f'{cid}/bounded-method,bounds==(bound,50)', all(c.method == 'bounded' and h.isnum(c.bounds[0]) for c in calls)
            and bool(calls))
    okb = True
    for c in calls:
        okb = okb & h.eq(c.bounds[0], bound) & h.eq(c.bounds[1], 50)
    h.claim(f'{cid}/bounds', okb)
    oko = True
    for i, c in enumerate(calls):
        phi = h.fun('phi', z)
        if cy:
            cov = n[i] / (n[1] * 1.01)
            corr = 1 + 1 / cov * ((1 - cov).log() if h.sym else math.log(1 - cov))
            e = (phi - corr).exp() if h.sym else math.exp(phi - corr)
        else:
            e = phi.exp() if h.sym else math.exp(phi)
        oko = oko & h.close(c.at_z, (e - p[i]) ** 2, 1e-12)
    h.claim(f'{cid}/objective==(exp(phi(L)[-CY correction])-p)^2', oko)
    # early stop: stops after the first pore size above 10/geo, otherwise one result per pressure
    stop0 = calls[0].x > 5
    h.claim(f'{cid}/one-result-per-pressure-until-unrealistic-size', (len(out) == 1) if (stop0 if isinstance(stop0, bool) else bool(stop0)) else len(out) == 2)
    okx = True
    for o, c in zip(out, calls):
        okx = okx & h.eq(o, c.x)
    h.claim(f'{cid}/returns-the-minimiser-output', okx)


def obligations(tier):
    obs = []
    kw = dict(funcs=FUNCS, stubs=['_solve_hk recorder', 'minimize_scalar recorder'], timeout_s=60 if tier == 'quick' else 600, validate=1)
    import pygaps.characterisation.models_hk as mh
    for geometry in ('slit', 'sphere'):
        for an in (['N2'] if tier == 'quick' else list(ADSORBATES)):
            for mn in mh._ADSORBENT_MODELS:
                obs.append(Obligation(f'C17/potential/{geometry}/{an}/{mn}', h_potential, (geometry, an, mn),
                                      bounds='symbolic L and T; shipped adsorbent set; literature adsorbate set', **kw))
    for an, T in ((('N2', 77.35),) if tier == 'quick' else (('N2', 77.35), ('Ar', 87.3))):
        for mn in mh._ADSORBENT_MODELS:
            for nt in ((12, 30, 37) if tier == 'quick' else (9, 12, 20, 30, 37, 45, 50)):
                obs.append(Obligation(f'C17/potential/cylinder/{an}/{mn}/int(25L)={nt}', h_potential_cylinder, (an, mn, nt, T),
                                      bounds=f'pore radius in [{nt}/25, {nt + 1}/25) nm (symbolic); T = {T} K; published series to {2 * nt} terms; rel. 5e-3', **kw))
    for geometry in ('slit', 'cylinder', 'sphere'):
        for cy in (False, True):
            obs.append(Obligation(f'C17/postprocess/{geometry}/cy={cy}', h_postprocess, (geometry, cy), bounds='k=3 symbolic solver outputs', **kw))
    for geometry in ('slit', 'sphere'):
        for cy in (False, True):
            obs.append(Obligation(f'C17/end-to-end/{geometry}/cy={cy}', h_end_to_end, (geometry, cy), bounds='k=3; only minimize_scalar stubbed',
                                  closure=False, **kw))
    for cy in (False, True):
        obs.append(Obligation(f'C17/solver/cy={cy}', h_solver, (cy,), bounds='2 pressure points; unknown potential function', **kw))
    return obs
