"""Harness, claims, obligations, and the discharge loop (solver verdict + replay)."""
import fnmatch
import fractions
import hashlib
import importlib
import inspect
import json
import math
import os
import re
import sys
import time
import traceback

import numpy
import z3

from . import symx
from .symx import SymBool, SymInt, SymReal

VERIF = os.path.dirname(os.path.dirname(os.path.abspath(__file__)))


class HarnessError(Exception):
    pass


class Claim:
    __slots__ = ('cid', 'holds', 'regions', 'info')

    def __init__(self, cid, holds, regions=None, info=None):
        self.cid = cid
        self.holds = holds
        self.regions = regions or {}
        self.info = info


def _zbool(x):
    if isinstance(x, SymBool):
        return x.c
    if isinstance(x, (bool, numpy.bool_)):
        return z3.BoolVal(bool(x))
    if isinstance(x, z3.BoolRef):
        return x
    raise HarnessError(f'claim condition of type {type(x)}')


class Harness:
    """Value factory shared by the symbolic run and the concrete (float) re-run."""

    def __init__(self, mode, env=None, purpose='replay'):
        self.mode = mode            # 'sym' | 'conc'
        self.env = env or {}
        self.purpose = purpose      # 'replay' | 'validate'
        self.vars = {}
        self.funs = {}
        self.claims = []
        self.log = []
        del symx.STUB_GAPS[:]
        self.stub_gaps = symx.STUB_GAPS      # API the code under test asked a contract stub for and the stub does not model
        self.missing = []
        self.preferred = []     # soft constraints used only to pick readable validation models

    @property
    def sym(self):
        return self.mode == 'sym'

    # ---- symbols
    def real(self, name, pos=False, nonneg=False, lo=None, hi=None):
        if self.sym:
            v = z3.Real(name)
            self.vars[name] = v
            st = symx.cur()
            if pos:
                st.add(v > 0)
            if nonneg:
                st.add(v >= 0)
            if lo is not None:
                st.add(v > symx.toz(lo))
            if hi is not None:
                st.add(v < symx.toz(hi))
            return SymReal(v)
        if name not in self.env:
            self.missing.append(name)
            return 1.0
        return float(self.env[name])

    def int(self, name, lo, hi):
        """integer in [lo, hi]"""
        if self.sym:
            v = z3.Int(name)
            self.vars[name] = v
            st = symx.cur()
            st.add(v >= lo)
            st.add(v <= hi)
            return SymInt(v)
        if name not in self.env:
            self.missing.append(name)
            return lo
        return int(self.env[name])

    def bool(self, name):
        if self.sym:
            v = z3.Bool(name)
            self.vars[name] = v
            return SymBool(v)
        if name not in self.env:
            self.missing.append(name)
            return False
        return bool(self.env[name])

    def choice(self, name, n):
        """concrete int in range(n), forked in symbolic mode"""
        k = self.int(name, 0, n - 1)
        return k.__index__() if self.sym else k

    def flag(self, name):
        """concrete bool, forked in symbolic mode"""
        b = self.bool(name)
        return bool(b)

    def fun(self, name, *args):
        """application of an unknown real function.  Encoded without uninterpreted functions (pure nonlinear real
        arithmetic is decided by nlsat, UF+NRA is not): one fresh real per syntactically distinct argument tuple.
        Applications with semantically equal but syntactically different arguments are therefore *not* forced to
        agree - an over-approximation (may only produce spurious models, which the replay filters out)."""
        if self.sym:
            zargs = []
            for a in args:
                nf = symx._nonfinite(a)
                if nf is not None:        # the unknown function evaluated at +-inf / nan: its own fresh value
                    zargs.append(z3.Real('nan' if nf != nf else ('+inf' if nf > 0 else '-inf')))
                else:
                    zargs.append(z3.simplify(symx.toz(a)))
            key = (name, tuple(a.sexpr() for a in zargs))
            tab = self.funs.setdefault(name, {})
            if key not in tab:
                v = z3.Real(f'{name}({", ".join(a.sexpr() for a in zargs)})')
                tab[key] = (zargs, v)
            return SymReal(tab[key][1])
        tab = self.env.get('@' + name)
        if tab is None:
            self.missing.append('@' + name)
            return 1.0
        best = None
        for pt, val in tab['points']:
            ok = all(abs(float(a) - float(p)) <= 1e-9 * max(1.0, abs(float(p))) for a, p in zip(args, pt))
            if ok:
                best = val
                break
        if best is None:
            best = tab['else']
        return float(best)

    # ---- assumptions / claims
    def assume(self, cond):
        if self.sym:
            symx.cur().add(_zbool(cond))
        else:
            if not bool(cond):
                self.log.append('assumption false in concrete run')

    def prefer(self, cond):
        """typical-value hint: only used when choosing the model for the float validation run"""
        if self.sym:
            self.preferred.append(_zbool(cond))

    def claim(self, cid, holds, regions=None, info=None):
        if self.sym:
            regs = {k: _zbool(v) for k, v in (regions or {}).items()}
            h = holds if isinstance(holds, (bool, numpy.bool_)) else _zbool(holds)
            self.claims.append(Claim(cid, h, regs, info))
        else:
            self.claims.append(Claim(cid, bool(holds), {k: bool(v) for k, v in (regions or {}).items()}, info))

    def close(self, a, b, rel=1e-9, abs_=0.0):
        """|a - b| <= rel*|b| + abs_   (b is the oracle side)"""
        na, nb = symx._nonfinite(a), symx._nonfinite(b)
        if na is not None or nb is not None:
            if na is None or nb is None:
                return False
            return (math.isnan(na) and math.isnan(nb)) or na == nb
        if self.sym and (symx.is_sym(a) or symx.is_sym(b)):
            az, bz = symx.toz(a), symx.toz(b)
            d = az - bz
            if z3.eq(az, bz) or z3.is_rational_value(z3.simplify(d)) and z3.simplify(d).numerator_as_long() == 0:
                return True
            tol = symx.realval(rel) * z3.If(bz >= 0, bz, -bz) + symx.toz(abs_)
            if rel == 0 and not symx.is_sym(abs_) and abs_ == 0:
                return SymBool(az == bz)
            return SymBool(z3.And(d <= tol, -d <= tol))
        a = float(a)
        b = float(b)
        if math.isnan(a) or math.isnan(b):
            return math.isnan(a) and math.isnan(b)
        if math.isinf(a) or math.isinf(b):
            return a == b
        tol = rel * abs(b) + float(abs_)
        if self.mode == 'conc':
            slack = 1e-9 * max(abs(a), abs(b)) + 1e-300
            if self.purpose == 'replay':
                return abs(a - b) <= 0.5 * tol + (slack if tol == 0 else 0)
            return abs(a - b) <= 2 * tol + slack
        return abs(a - b) <= tol

    def eq(self, a, b):
        return self.close(a, b, 0.0, 0.0)

    def isnum(self, x):
        """x is a finite number (symbolic reals are finite by construction)"""
        if symx.is_sym(x):
            return True
        try:
            return math.isfinite(float(x))
        except (TypeError, ValueError):
            return False


class Obligation:
    def __init__(self, oid, func, args=(), funcs=(), bounds='', stubs=(), timeout_s=60,
                 closure=False, tangent=False, max_paths=3000, wall_s=240, validate=2, kind='symx'):
        self.oid = oid
        self.func = func
        self.args = args
        self.funcs = list(funcs)
        self.bounds = bounds
        self.stubs = list(stubs)
        self.timeout_s = timeout_s
        self.closure = closure
        self.tangent = tangent
        self.max_paths = max_paths
        self.wall_s = wall_s
        self.validate = validate
        self.kind = kind


# --------------------------------------------------------------------------
def _env_from_model(h, m, path):
    env = {}
    for name, v in h.vars.items():
        val = m.eval(v, model_completion=True)
        if z3.is_true(val):
            env[name] = True
        elif z3.is_false(val):
            env[name] = False
        else:
            env[name] = symx.model_num(m, v)
    for name, tab in h.funs.items():
        pts = []
        for key, (zargs, v) in tab.items():
            try:
                pts.append(([symx.model_num(m, a) for a in zargs], symx.model_num(m, v)))
            except symx.Unsupported:
                pass
        env['@' + name] = {'points': pts, 'else': pts[0][1] if pts else fractions.Fraction(1)}
    return env


def env_to_json(env):
    out = {}
    for k, v in env.items():
        if k.startswith('@'):
            out[k] = {'points': [[[str(a) for a in pt], str(val)] for pt, val in v['points']], 'else': str(v['else'])}
        elif isinstance(v, bool):
            out[k] = v
        else:
            out[k] = str(v)
    return out


def env_from_json(d):
    env = {}
    for k, v in d.items():
        if k.startswith('@'):
            env[k] = {'points': [([fractions.Fraction(a) for a in pt], fractions.Fraction(val)) for pt, val in v['points']],
                      'else': fractions.Fraction(v['else'])}
        elif isinstance(v, bool):
            env[k] = v
        else:
            env[k] = fractions.Fraction(v)
    return env


_CONC_CACHE = {}
_SERVER = None        # (pid, connection) of the pristine concrete-run server of this worker
_CUR_OB = None


class ConcResult:
    """what a concrete run leaves behind (picklable)"""

    def __init__(self, claims, log):
        self.claims, self.log = claims, log


def start_concrete_server(ob):
    """Fork a pristine copy of this worker NOW (before any symbolic path has run).  Every concrete run (replay of a solver
    model, encoding validation) is executed in a grandchild forked from that copy, so that module-level state left behind
    by symbolic paths or by earlier replays - e.g. a cache introduced by the code under test - cannot leak into it."""
    global _SERVER, _CUR_OB
    import multiprocessing
    stop_concrete_server()
    _CUR_OB = ob
    a, b = multiprocessing.Pipe()
    pid = os.fork()
    if pid == 0:
        try:
            a.close()
            _serve(b)
        finally:
            os._exit(0)
    b.close()
    _SERVER = (pid, a)


def stop_concrete_server():
    global _SERVER
    if _SERVER is None:
        return
    pid, conn = _SERVER
    _SERVER = None
    try:
        conn.send(None)
        conn.close()
    except Exception:      # noqa: BLE001
        pass
    try:
        os.waitpid(pid, 0)
    except Exception:      # noqa: BLE001
        pass


def _serve(conn):
    import multiprocessing
    import signal
    signal.alarm(0)
    signal.signal(signal.SIGALRM, signal.SIG_DFL)
    while True:
        try:
            msg = conn.recv()
        except EOFError:
            return
        if msg is None:
            return
        env, purpose = msg
        r, w = multiprocessing.Pipe(duplex=False)
        gp = os.fork()
        if gp == 0:
            try:
                r.close()
                try:
                    h, exc = _run_concrete(_CUR_OB, env, purpose)
                    out = ('ok', [(c.cid, bool(c.holds), {k: bool(v) for k, v in c.regions.items()}, None if c.info is None else _short(c.info, 400))
                                  for c in h.claims], [str(x)[:2000] for x in h.log], None if exc is None else repr(exc)[:400])
                except symx.Unsupported as e:
                    out = ('unsupported', str(e)[:600])
                except BaseException as e:     # noqa: BLE001
                    out = ('crash', repr(e)[:600])
                w.send(out)
            finally:
                os._exit(0)
        w.close()
        out = ('crash', 'concrete run exceeded 600 s')
        try:
            if r.poll(600):
                out = r.recv()
            else:
                os.kill(gp, signal.SIGKILL)
        except EOFError:
            out = ('crash', 'concrete run died without a result')
        try:
            os.waitpid(gp, 0)
        except Exception:      # noqa: BLE001
            pass
        conn.send(out)


def run_concrete(ob, env, purpose):
    """Re-run the obligation's harness with floats taken from env (memoised per environment: a path with many failing
    claims is replayed once).  Returns (result with .claims/.log, exception-or-None)."""
    key = (ob.oid, purpose, json.dumps(env_to_json(env), sort_keys=True, default=str))
    if key in _CONC_CACHE:
        return _CONC_CACHE[key]
    if _SERVER is not None and _CUR_OB is ob:
        _SERVER[1].send((env, purpose))
        out = _SERVER[1].recv()
        if out[0] == 'unsupported':
            raise symx.Unsupported(out[1])
        if out[0] == 'crash':
            raise symx.Unsupported(f'concrete run crashed: {out[1]}')
        r = (ConcResult([Claim(c, hd, rg, inf) for c, hd, rg, inf in out[1]], out[2]), out[3])
    else:
        r = _run_concrete(ob, env, purpose)
    if len(_CONC_CACHE) > 64:
        _CONC_CACHE.clear()
    _CONC_CACHE[key] = r
    return r


def _run_concrete(ob, env, purpose):
    h = Harness('conc', env, purpose)
    exc = None
    import warnings
    with warnings.catch_warnings():
        warnings.simplefilter('ignore')
        old = numpy.seterr(all='ignore')
        try:
            ob.func(h, *ob.args)
        except Exception as e:     # noqa: BLE001
            if symx.raised_by_harness(e):
                raise symx.Unsupported(f'exception raised by harness/stub code in the concrete run: {e!r}') from e
            exc = e
            h.claims.append(Claim('no-unexpected-exception', False, {}, repr(e)))
        finally:
            numpy.seterr(**old)
    if h.stub_gaps:
        raise symx.Unsupported(f'the code under test used backend API the stub does not model: {sorted(set(h.stub_gaps))}')
    return h, exc


def _short(x, n=300):
    s = str(x)
    return s if len(s) <= n else s[:n] + '...'


def discharge(ob, findings, prop, tier):
    try:
        return _discharge(ob, findings, prop, tier)
    finally:
        stop_concrete_server()


def _discharge(ob, findings, prop, tier):
    """Explore the obligation and decide every claim.  Returns a picklable dict."""
    t_start = time.time()
    stats = symx.new_stats()
    res = {
        'oid': ob.oid, 'paths': 0, 'claims': 0, 'trivial': 0, 'unsat': 0, 'sat': 0, 'unknown': 0,
        'violations': [], 'known': [], 'unconfirmed': [], 'harness_errors': [], 'inconclusive': [],
        'validated': 0, 'replays': 0, 'samples': [], 'solver_s': 0.0, 'wall_s': 0.0, 'decisions': 0,
        'feas_queries': 0, 'feas_unknown': 0, 'reach': 0, 'bounds': ob.bounds, 'stubs': ob.stubs,
        'funcs': ob.funcs, 'exc_paths': 0, 'notes': [], 'cases': 0,
    }
    holder = {}

    def fn():
        h = Harness('sym')
        holder['h'] = h
        saved = [(o, a, getattr(o, a)) for o, a, _ in symx.float_coercion_patches()]
        for o, a, w in symx.float_coercion_patches():
            setattr(o, a, w)
        try:
            ob.func(h, *ob.args)
        except Exception as e:    # noqa: BLE001
            if symx.raised_by_harness(e):
                raise symx.Unsupported(f'exception raised by harness/stub code: {type(e).__name__}: {_short(e, 200)}') from e
            h.claims.append(Claim('no-unexpected-exception', False, {}, f'{type(e).__name__}: {_short(e, 200)}'))
            h.log.append(traceback.format_exc(limit=6))
        finally:
            for o, a, v in saved:
                setattr(o, a, v)
        if h.stub_gaps:
            raise symx.Unsupported(f'the code under test used backend API the stub does not model: {sorted(set(h.stub_gaps))}')
        # final feasibility of the path (assumptions may have been added after the last branch)
        st = symx.cur()
        if st.check(z3.BoolVal(True)) == 'unsat':
            raise symx.Abort('infeasible after assumptions')
        return h

    start_concrete_server(ob)
    try:
        paths = symx.explore(fn, stats=stats, max_paths=ob.max_paths, wall_s=ob.wall_s)
    except symx.Budget as e:
        res['inconclusive'].append(f'{ob.oid}: exploration budget exhausted ({e})')
        paths = []
    except symx.Unsupported as e:
        res['harness_errors'].append(f'{ob.oid}: unsupported operation during exploration: {e}')
        res['notes'].append(traceback.format_exc(limit=8))
        paths = []

    known_printed = set()
    validated_paths = 0
    for pi, path in enumerate(paths):
        h = path.value
        res['paths'] += 1
        if not h.claims:
            continue
        res['cases'] += len({c.cid.rsplit('/', 1)[0] for c in h.claims})
        for cl in h.claims:
            res['claims'] += 1
            listed = [f for f in findings if f['property'] == prop and fnmatch.fnmatch(cl.cid, f['claim'])
                      and f['region'] in cl.regions]
            if cl.holds is True or (isinstance(cl.holds, numpy.bool_) and bool(cl.holds)):
                res['trivial'] += 1
                res['unsat'] += 1
                continue
            neg = z3.BoolVal(True) if (cl.holds is False or isinstance(cl.holds, numpy.bool_)) else z3.Not(cl.holds)
            excl = [z3.Not(cl.regions[f['region']]) for f in listed]
            r, m = symx.decide(path, z3.And(neg, *excl), timeout_ms=int(ob.timeout_s * 1000),
                               closure=ob.closure, tangent=ob.tangent, stats=stats)
            if len(res['samples']) < 4:
                res['samples'].append({'claim': cl.cid, 'verdict': r, 'path_condition': [_short(c, 160) for c in path.pc[:8]],
                                       'n_defs': len(path.defs), 'negated_claim': _short(neg, 240)})
            if r == 'unsat':
                res['unsat'] += 1
            elif r == 'unknown':
                res['unknown'] += 1
                res['inconclusive'].append(f'{cl.cid}: solver returned unknown within {ob.timeout_s}s')
            else:
                res['sat'] += 1
                env = _env_from_model(h, m, path)
                hc, exc = run_concrete(ob, env, 'replay')
                res['replays'] += 1
                cc = [c for c in hc.claims if c.cid == cl.cid]
                reproduced = bool(cc) and any(not c.holds for c in cc)
                if cl.cid == 'no-unexpected-exception' and exc is None:
                    reproduced = False
                if not reproduced:
                    # the model may sit on "round" values where a float effect (rounding, cancellation) hides the
                    # violation: ask for nearby generic models (same path, same violation) and replay those
                    rvars = [(name, v) for name, v in sorted(h.vars.items())
                             if z3.is_real(v) and not isinstance(env.get(name), bool) and env.get(name) is not None]
                    attempts = [('all', 1), ('all', 2)] + [('one', j) for j in range(min(len(rvars), 8))]
                    for mode_, attempt in attempts:
                        pert = []
                        for i, (name, v) in enumerate(rvars):
                            if mode_ == 'one' and i != attempt:
                                continue
                            val = env.get(name)
                            k_ = attempt if mode_ == 'all' else 1
                            eps = fractions.Fraction(1234567 + 7919 * i, 10 ** 9) * k_
                            pert.append(v == symx.realval(val * (1 + eps) + eps / 7))
                        r3, m3 = symx.decide(path, z3.And(neg, *excl, *pert), timeout_ms=10000, closure=ob.closure,
                                             tangent=ob.tangent, stats=stats)
                        if r3 != 'sat':
                            continue
                        env3 = _env_from_model(h, m3, path)
                        hc3, exc3 = run_concrete(ob, env3, 'replay')
                        res['replays'] += 1
                        cc3 = [c for c in hc3.claims if c.cid == cl.cid]
                        if cc3 and any(not c.holds for c in cc3) and not (cl.cid == 'no-unexpected-exception' and exc3 is None):
                            reproduced, env, hc = True, env3, hc3
                            break
                detail = {'claim': cl.cid, 'obligation': ob.oid, 'env': env_to_json(env), 'info': _short(cl.info, 400),
                          'concrete_claims': [(c.cid, bool(c.holds), _short(c.info, 200)) for c in hc.claims][:20],
                          'log': h.log[-2:]}
                if reproduced:
                    res['violations'].append(detail)
                else:
                    res['unconfirmed'].append(detail)
            # known-finding regions
            for f in listed:
                key = (f['claim'], f['region'])
                if key in known_printed:
                    continue
                r2, m2 = symx.decide(path, z3.And(neg, cl.regions[f['region']]), timeout_ms=int(ob.timeout_s * 1000),
                                     closure=ob.closure, tangent=ob.tangent, stats=stats)
                if r2 == 'sat':
                    env = _env_from_model(h, m2, path)
                    hc, exc = run_concrete(ob, env, 'replay')
                    res['replays'] += 1
                    cc = [c for c in hc.claims if c.cid == cl.cid]
                    if cc and any(not c.holds for c in cc):
                        known_printed.add(key)
                        res['known'].append({'claim': cl.cid, 'pattern': f['claim'], 'region': f['region'], 'what': f['what']})
        # encoding validation / reachability witness on the first few paths
        if validated_paths < ob.validate:
            r, m = ('unknown', None)
            if h.preferred:
                r, m = symx.decide(path, z3.And(*h.preferred), timeout_ms=10000, stats=stats)
            if r != 'sat':
                r, m = symx.decide(path, z3.BoolVal(True), timeout_ms=20000, stats=stats)
            if r == 'sat':
                res['reach'] += 1
                validated_paths += 1
                env = _env_from_model(h, m, path)
                hc, exc = run_concrete(ob, env, 'validate')
                proven = {}
                for cl in h.claims:
                    proven.setdefault(cl.cid, cl)
                bad = []
                for c in hc.claims:
                    if c.holds:
                        continue
                    # a concretely failing claim must lie in a listed known region
                    inreg = any(f['property'] == prop and fnmatch.fnmatch(c.cid, f['claim']) and c.regions.get(f['region'])
                                for f in findings)
                    if not inreg:
                        bad.append((c.cid, _short(c.info, 200)))
                if bad and not (res['violations'] or res['unconfirmed']):
                    # symbolic side proved the claims but floats disagree: encoding problem *unless* the
                    # symbolic side also found the violation on some path (then it is reported there).
                    holder.setdefault('val_bad', []).append({'env': env_to_json(env), 'bad': bad[:5]})
                else:
                    res['validated'] += 1
    # validation disagreements are harness errors only if no violation explains them
    if holder.get('val_bad') and not res['violations']:
        # check whether the symbolic run had the same claims unsat -> mismatch
        res['val_mismatch'] = holder['val_bad'][:3]
    if res['paths'] == 0 and not res['inconclusive'] and not res['harness_errors']:
        res['harness_errors'].append(f'{ob.oid}: no feasible path (vacuous harness)')
    elif res['paths'] and res['claims'] == 0:
        res['harness_errors'].append(f'{ob.oid}: no claim reached (vacuous harness)')
    elif res['paths'] and res['reach'] == 0 and ob.validate:
        res['harness_errors'].append(f'{ob.oid}: reachability witness not found (path conditions not satisfiable within budget)')
    for k in ('solver_s', 'decisions', 'feas_queries', 'feas_unknown'):
        res[k] = stats[k]
    res['aborted'] = stats['aborted']
    for t_ in sorted(set(stats.get('truncated', []))):
        res['inconclusive'].append(f'{ob.oid}: {t_}')
        res['unknown'] += 1
    res['wall_s'] = time.time() - t_start
    return res


def file_sha(path):
    with open(path, 'rb') as f:
        return hashlib.sha256(f.read()).hexdigest()[:16]


def describe_funcs(names):
    """qualified name -> source file + sha256 of the file as imported now"""
    out = []
    for n in names:
        try:
            mod, _, attr = n.partition(':')
            m = importlib.import_module(mod)
            src = inspect.getsourcefile(m)
            out.append({'function': n, 'file': src, 'sha256_16': file_sha(src)})
        except Exception as e:     # noqa: BLE001
            out.append({'function': n, 'error': repr(e)})
    return out
