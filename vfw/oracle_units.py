"""Independent oracle for unit / mode / basis conversions (exact rationals, SI definitions).

Nothing here is read from /repo.  A unit the oracle does not know raises KeyError, which the checks
report as a harness error (the oracle has to be extended deliberately).
"""
from fractions import Fraction as F

# pressure, in Pa
PRESSURE_PA = {
    'Pa': F(1), 'kPa': F(1000), 'MPa': F(10 ** 6), 'mbar': F(100), 'bar': F(10 ** 5),
    'atm': F(101325), 'mmHg': F('133.322387415'), 'torr': F(101325, 760),
}
# amount of substance, in mol   (STP molar volume of an ideal gas at 273.15 K, 1 atm: 22 414 cm3/mol)
MOLAR_MOL = {
    'mmol': F(1, 1000), 'mol': F(1), 'kmol': F(1000),
    'cm3(STP)': F(1, 22414), 'mL(STP)': F(1, 22414), 'cc(STP)': F(1, 22414), 'L(STP)': F(1000, 22414),
}
# mass, in g   (CODATA 2018 atomic mass constant)
MASS_G = {
    'amu': F('1.66053906660e-24'), 'mg': F(1, 1000), 'cg': F(1, 100), 'dg': F(1, 10), 'g': F(1), 'kg': F(1000),
}
# volume, in cm3
VOLUME_CM3 = {
    'cm3': F(1), 'mL': F(1), 'cc': F(1), 'dm3': F(1000), 'L': F(1000), 'm3': F(10 ** 6),
}
# relative tolerance with which the library's rounded constants are accepted
TOL = {'mmHg': 1e-5, 'torr': 1e-5, 'amu': 1e-5, 'cm3(STP)': 2e-4, 'mL(STP)': 2e-4, 'cc(STP)': 2e-4, 'L(STP)': 2e-4}
BASE_TOL = 1e-12

LOADING_TABLE = {'molar': MOLAR_MOL, 'mass': MASS_G, 'volume_gas': VOLUME_CM3, 'volume_liquid': VOLUME_CM3}
MATERIAL_TABLE = {'molar': MOLAR_MOL, 'mass': MASS_G, 'volume': VOLUME_CM3}


def tol(*units):
    return BASE_TOL + sum(TOL.get(u, 0.0) for u in units if u)


def pressure_to_pa(v, mode, unit, psat_pa):
    """value in (mode, unit) -> Pa"""
    if mode == 'absolute':
        return v * PRESSURE_PA[unit]
    if mode == 'relative':
        return v * psat_pa
    if mode == 'relative%':
        return v * psat_pa / 100
    raise KeyError(mode)


def pressure_from_pa(pa, mode, unit, psat_pa):
    if mode == 'absolute':
        return pa / PRESSURE_PA[unit]
    if mode == 'relative':
        return pa / psat_pa
    if mode == 'relative%':
        return pa / psat_pa * 100
    raise KeyError(mode)


class Thermo:
    """adsorbate quantities in SI-ish lab units: M [g/mol], rho_l, rho_g [mol/cm3]"""

    def __init__(self, M, rho_l_molar, rho_g_molar):
        self.M = M
        self.rl = rho_l_molar
        self.rg = rho_g_molar


def _phys_to_mol(v, basis, unit, th):
    if basis == 'molar':
        return v * MOLAR_MOL[unit]
    if basis == 'mass':
        return v * MASS_G[unit] / th.M
    if basis == 'volume_gas':
        return v * VOLUME_CM3[unit] * th.rg
    if basis == 'volume_liquid':
        return v * VOLUME_CM3[unit] * th.rl
    raise KeyError(basis)


def _mol_to_phys(n, basis, unit, th):
    if basis == 'molar':
        return n / MOLAR_MOL[unit]
    if basis == 'mass':
        return n * th.M / MASS_G[unit]
    if basis == 'volume_gas':
        return n / th.rg / VOLUME_CM3[unit]
    if basis == 'volume_liquid':
        return n / th.rl / VOLUME_CM3[unit]
    raise KeyError(basis)


def _frac_rep(mat_basis, mat_unit):
    """fraction/percent = amount in the material's own basis and unit per unit material"""
    return ('volume_liquid' if mat_basis == 'volume' else mat_basis), mat_unit


def loading_to_mol(v, basis, unit, th, mat_basis=None, mat_unit=None):
    if basis in ('fraction', 'percent'):
        b, u = _frac_rep(mat_basis, mat_unit)
        if basis == 'percent':
            v = v / 100
        return _phys_to_mol(v, b, u, th)
    return _phys_to_mol(v, basis, unit, th)


def loading_from_mol(n, basis, unit, th, mat_basis=None, mat_unit=None):
    if basis in ('fraction', 'percent'):
        b, u = _frac_rep(mat_basis, mat_unit)
        r = _mol_to_phys(n, b, u, th)
        return r * 100 if basis == 'percent' else r
    return _mol_to_phys(n, basis, unit, th)


def loading_units_involved(basis, unit, mat_unit=None):
    return [mat_unit] if basis in ('fraction', 'percent') else [unit]


def material_to_per_g(v, basis, unit, density, molar_mass):
    """a quantity per (unit) of material -> per gram of material"""
    if basis == 'mass':
        return v / MASS_G[unit]
    if basis == 'volume':
        return v / VOLUME_CM3[unit] / density
    if basis == 'molar':
        return v / MOLAR_MOL[unit] / molar_mass
    raise KeyError(basis)


def material_from_per_g(x, basis, unit, density, molar_mass):
    if basis == 'mass':
        return x * MASS_G[unit]
    if basis == 'volume':
        return x * density * VOLUME_CM3[unit]
    if basis == 'molar':
        return x * molar_mass * MOLAR_MOL[unit]
    raise KeyError(basis)


def temperature_to_k(v, unit):
    if unit == 'K':
        return v
    if unit == '°C':
        return v + F('273.15')
    raise KeyError(unit)


def temperature_from_k(k, unit):
    if unit == 'K':
        return k
    if unit == '°C':
        return k - F('273.15')
    raise KeyError(unit)
