"""Shared machinery for C08 / C09: real sqlite3 database files, symbolic pre-state and fault schedule.

The database engine is the real sqlite3 (on a scratch file), so there is no relational stub to validate.  What is
symbolic - and therefore enumerated exhaustively by the solver-driven path explorer - is (a) which items exist in the
target file before the call (presence bits), (b) which items are known to the in-memory registries, (c) the
operation's flags, and for C09 (d) the index k of the SQL statement that fails and (e) the kind of fault.  The oracle
is a plain dictionary model of a keyed collection."""
import contextlib
import copy
import os
import shutil
import sqlite3
import tempfile

import numpy

from . import stubs


class Crash(BaseException):
    """process death: nothing after it is relied on except that an uncommitted transaction is discarded"""


SCRATCH = []


def detach(exc):
    """drop the traceback (and the exception chain) of a caught exception: the frames keep the sqlite cursor alive,
    a closed connection with a live statement stays a zombie and keeps its file lock"""
    import gc
    exc.__traceback__ = None
    c = exc
    while c is not None:
        c.__traceback__ = None
        nxt = c.__cause__ or c.__context__
        c.__cause__ = None
        c.__context__ = None
        c = nxt
    gc.collect()
    return exc


TEMPLATE = []


def new_db():
    """fresh database file created by the library's own creator (once per process, then copied)"""
    from pygaps.utilities.sqlite_db_creator import db_create
    d = tempfile.mkdtemp(prefix='vfw_sql_')
    SCRATCH.append(d)
    path = os.path.join(d, 'store.db')
    if not TEMPLATE or not os.path.exists(TEMPLATE[0]):
        td = tempfile.mkdtemp(prefix='vfw_sql_tpl_')
        tp = os.path.join(td, 'template.db')
        db_create(tp)
        TEMPLATE[:] = [tp, td]
    shutil.copy(TEMPLATE[0], path)
    return path


def cleanup_template():
    if TEMPLATE:
        shutil.rmtree(TEMPLATE[1], ignore_errors=True)
        TEMPLATE[:] = []


def cleanup():
    while SCRATCH:
        shutil.rmtree(SCRATCH.pop(), ignore_errors=True)


def raw(path, sql, params=()):
    con = sqlite3.connect(path)
    try:
        con.execute('PRAGMA foreign_keys = ON')
        cur = con.execute(sql, params)
        rows = cur.fetchall()
        con.commit()
        return rows
    finally:
        con.close()


def content(path):
    """committed logical content of the file, read through an independent connection"""
    out = {}
    out['ads'] = {n: sorted((t, v) for t, v in raw(path, 'SELECT type, value FROM adsorbate_properties WHERE ads_id=?', (i,)))
                  for i, n in raw(path, 'SELECT id, name FROM adsorbates')}
    out['ads_types'] = sorted(t for (t,) in raw(path, 'SELECT type FROM adsorbate_properties_type'))
    out['mat'] = {n: sorted((t, v) for t, v in raw(path, 'SELECT type, value FROM material_properties WHERE mat_id=?', (i,)))
                  for i, n in raw(path, 'SELECT id, name FROM materials')}
    out['mat_types'] = sorted(t for (t,) in raw(path, 'SELECT type FROM material_properties_type'))
    out['iso'] = {}
    for (i, typ, mat, ads, T) in raw(path, 'SELECT id, iso_type, material, adsorbate, temperature FROM isotherms'):
        out['iso'][i] = dict(iso_type=typ, material=mat, adsorbate=ads, temperature=T,
                             props=sorted((t, str(v)) for t, v in raw(path, 'SELECT type, value FROM isotherm_properties WHERE iso_id=?', (i,))),
                             data=sorted((t, d) for t, d in raw(path, 'SELECT type, data FROM isotherm_data WHERE iso_id=?', (i,))))
    out['iso_types'] = sorted(t for (t,) in raw(path, 'SELECT type FROM isotherm_type'))
    # orphans: rows of child tables whose parent is missing (must never exist)
    out['orphans'] = (raw(path, 'SELECT count(*) FROM adsorbate_properties WHERE ads_id NOT IN (SELECT id FROM adsorbates)')[0][0]
                      + raw(path, 'SELECT count(*) FROM material_properties WHERE mat_id NOT IN (SELECT id FROM materials)')[0][0]
                      + raw(path, 'SELECT count(*) FROM isotherm_properties WHERE iso_id NOT IN (SELECT id FROM isotherms)')[0][0]
                      + raw(path, 'SELECT count(*) FROM isotherm_data WHERE iso_id NOT IN (SELECT id FROM isotherms)')[0][0])
    return out


class FaultyCursor:
    def __init__(self, conn, real):
        self.conn, self.real = conn, real

    def execute(self, sql, params=()):
        c = self.conn
        k = c.n_statements
        c.n_statements += 1
        c.trace.append(('execute', sql.strip().split()[0].upper(), sql))
        if c.fault is not None and c.fault[0] == k and not sql.strip().upper().startswith('PRAGMA'):
            kind, when = c.fault[1], c.fault[2]
            c.fault_hit = True
            if when == 'after':
                self.real.execute(sql, params)
            c.trace.append(('fault', kind, k))
            if kind == 'Crash':
                raise Crash(f'process dies at statement {k}')
            raise getattr(sqlite3, kind)(f'injected {kind} at statement {k}')
        self.real.execute(sql, params)
        return self

    def fetchone(self):
        return self.real.fetchone()

    def fetchall(self):
        return self.real.fetchall()

    def __iter__(self):
        return iter(self.real)

    @property
    def lastrowid(self):
        return self.real.lastrowid


class FaultyConnection:
    """wraps a real sqlite3 connection; counts statements, injects one fault, records the call trace"""
    log = []

    def __init__(self, real, fault, path):
        self.__dict__['real'] = real
        self.__dict__['fault'] = fault            # (k, kind, 'before'|'after') or ('commit', kind, when) or None
        self.__dict__['n_statements'] = 0
        self.__dict__['trace'] = [('connect', path)]
        self.__dict__['fault_hit'] = False
        FaultyConnection.log.append(self)

    def __setattr__(self, k, v):
        if k in ('n_statements', 'fault_hit'):
            self.__dict__[k] = v
        else:
            setattr(self.real, k, v)

    def cursor(self):
        return FaultyCursor(self, self.real.cursor())

    def commit(self):
        self.trace.append(('commit',))
        f = self.fault
        if f is not None and f[0] == 'commit':
            self.fault_hit = True
            if f[2] == 'after':
                self.real.commit()
            self.trace.append(('fault', f[1], 'commit'))
            if f[1] == 'Crash':
                raise Crash('process dies at commit')
            raise getattr(sqlite3, f[1])('injected at commit')
        self.real.commit()

    def rollback(self):
        self.trace.append(('rollback',))
        self.real.rollback()

    def close(self):
        self.trace.append(('close',))
        self.real.close()


def fresh_sqlite_module():
    """pygaps.parsing.sqlite re-executed: module-level state (e.g. a memo added by the code under test) left behind by an
    earlier PATH of the exploration must not be mistaken for something that happened earlier in the explored scenario (every
    path stands for a session of its own; what happened "earlier in the session" is part of the path, see warm_up in C08)"""
    import importlib
    import sys
    import pygaps.parsing.sqlite      # noqa: F401
    return importlib.reload(sys.modules['pygaps.parsing.sqlite'])


@contextlib.contextmanager
def faulty_sqlite(fault=None):
    """sqlite3.connect inside pygaps.parsing.sqlite returns FaultyConnection objects"""
    import pygaps.parsing.sqlite as ps
    real_connect = sqlite3.connect
    FaultyConnection.log = []

    class Mod:
        def __getattr__(self, name):
            return getattr(sqlite3, name)

        def connect(self, path, *a, **k):
            k.setdefault('timeout', 0.3)      # a lock conflict is reported at once instead of after sqlite's 5 s
            return FaultyConnection(real_connect(path, *a, **k), fault, path)

    with stubs.patched((ps, 'sqlite3', Mod())):
        yield FaultyConnection.log


@contextlib.contextmanager
def registries(mats=(), adss=()):
    """in-memory MATERIAL_LIST / ADSORBATE_LIST replaced by the given contents (restored afterwards)"""
    import pygaps.data as pd_
    sm, sa = list(pd_.MATERIAL_LIST), list(pd_.ADSORBATE_LIST)
    pd_.MATERIAL_LIST[:] = list(mats)
    pd_.ADSORBATE_LIST[:] = list(adss)
    try:
        yield
    finally:
        pd_.MATERIAL_LIST[:] = sm
        pd_.ADSORBATE_LIST[:] = sa


def prestate(path, h, items):
    """insert the catalogue items whose (symbolic) presence bit is set, with raw SQL"""
    present = {}
    for key, spec in items.items():
        present[key] = h.flag(f'present_{key}')
        if not present[key]:
            continue
        kind = spec['kind']
        if kind in ('ads_type', 'mat_type'):
            table = {'ads_type': 'adsorbate_properties_type', 'mat_type': 'material_properties_type'}[kind]
            raw(path, f'INSERT INTO "{table}" (type) VALUES (?)', (spec['type'],))
    for key, spec in items.items():
        if not present[key]:
            continue
        if spec['kind'] == 'ads':
            raw(path, 'INSERT INTO adsorbates (name) VALUES (?)', (spec['name'],))
            i = raw(path, 'SELECT id FROM adsorbates WHERE name=?', (spec['name'],))[0][0]
            for t, v in spec['props']:
                if raw(path, 'SELECT count(*) FROM adsorbate_properties_type WHERE type=?', (t,))[0][0] == 0:
                    raw(path, 'INSERT INTO adsorbate_properties_type (type) VALUES (?)', (t,))
                raw(path, 'INSERT INTO adsorbate_properties (ads_id, type, value) VALUES (?,?,?)', (i, t, v))
        elif spec['kind'] == 'mat':
            raw(path, 'INSERT INTO materials (name) VALUES (?)', (spec['name'],))
            i = raw(path, 'SELECT id FROM materials WHERE name=?', (spec['name'],))[0][0]
            for t, v in spec['props']:
                if raw(path, 'SELECT count(*) FROM material_properties_type WHERE type=?', (t,))[0][0] == 0:
                    raw(path, 'INSERT INTO material_properties_type (type) VALUES (?)', (t,))
                raw(path, 'INSERT INTO material_properties (mat_id, type, value) VALUES (?,?,?)', (i, t, v))
    return present
