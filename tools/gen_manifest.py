#!/usr/bin/env python3
"""Regenerate MANIFEST.json from tools/manifest_src.json (kept as a script so the manifest stays valid)."""
import json
import os
import sys

HERE = os.path.dirname(os.path.dirname(os.path.abspath(__file__)))
src = json.load(open(os.path.join(HERE, 'tools', 'manifest_src.json')))
props = [json.loads(l) for l in open(os.path.join(HERE, 'properties.jsonl'))]
ids = [p['id'] for p in props]

checks = []
for pid in ids:
    c = src['checks'].get(pid)
    if not c:
        continue
    checks.append({
        'property_id': pid,
        'quick_cmd': f'./check {pid} --tier quick',
        'thorough_cmd': f'./check {pid} --tier thorough',
        'evidence_file': f'/verif/evidence/{pid}.json',
        'replay_cmd_template': f'./check {pid} --replay {{path}}',
        'engine': c.get('engine', 'symx'),
        'level_claimed': {'category': c.get('category', 'model_checking'), 'text': c['text'], 'design_ref': c.get('design_ref', f'DESIGN.md §1 {pid}')},
        'level_note': c['note'],
        'technique': c['technique'],
    })
na = [{'property_id': pid, 'reason': src['not_applicable'][pid]} for pid in ids if pid not in src['checks']]
missing = [pid for pid in ids if pid not in src['checks'] and pid not in src['not_applicable']]
if missing:
    sys.exit(f'no entry for {missing}')
man = {
    'version': 1,
    'setup_cmd': './setup.sh',
    'hooks': src['hooks'],
    'engines': src['engines'],
    'checks': checks,
    'notes': src['notes'],
    'not_applicable': na,
}
json.dump(man, open(os.path.join(HERE, 'MANIFEST.json'), 'w'), indent=1)
print('checks:', [c['property_id'] for c in checks], 'n/a:', [n['property_id'] for n in na])
