#!/bin/bash
# usage: run_suite.sh <worktree dir>   -> prints baseline tests that no longer pass (must be none)
WT="$1"
cd "$WT" || exit 2
OUT=$(mktemp)
PYTHONPATH="$WT/src" /venv/bin/python -m pytest -q -p no:cacheprovider --timeout=900 --continue-on-collection-errors -rA 2>&1 | grep -E "^PASSED" | sed 's/^PASSED //' | sort > "$OUT"
/venv/bin/python - "$OUT" <<'PY'
import json, sys, re
passed=set(l.strip() for l in open(sys.argv[1]))
base=json.load(open('/root/.vp/BASELINE.json'))['stable_pass']
def norm(n):
    # junit id "tests.a.b.Class::test[x]" -> "tests/a/b.py::Class::test[x]"
    mod, _, rest = n.partition('::')
    parts = mod.split('.')
    # class name is last part if capitalised
    if parts[-1][0].isupper():
        cls = parts.pop(); rest = cls+'::'+rest
    return '/'.join(parts)+'.py::'+rest
missing=[b for b in base if norm(b) not in passed]
print(f'passed now: {len(passed)}; baseline stable: {len(base)}; baseline tests not passing now: {len(missing)}')
for m in missing[:30]: print('  NOT PASSING:', m)
sys.exit(1 if missing else 0)
PY
rc=$?
rm -f "$OUT"
exit $rc
