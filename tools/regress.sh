#!/bin/bash
# usage: tools/regress.sh [tier] [ids...]  - run every registered check on /repo as it stands; one summary line each
TIER="${1:-quick}"; shift
IDS="${@:-C01 C02 C03 C04 C05 C06 C07 C08 C09 C10 C11 C12 C13 C14 C15 C16 C17 C18 C19 C20}"
cd /verif
for id in $IDS; do
  s=$(date +%s)
  ./check "$id" --tier "$TIER" > "/tmp/regress_${id}_${TIER}.log" 2>&1
  rc=$?
  e=$(date +%s)
  echo "$id tier=$TIER rc=$rc wall=$((e-s))s $(grep -cE '^KNOWN-FINDING' /tmp/regress_${id}_${TIER}.log) known, $(grep -cE '^(INCONCLUSIVE|UNCONFIRMED|HARNESS|ENCOD)' /tmp/regress_${id}_${TIER}.log) inconclusive/harness :: $(tail -1 /tmp/regress_${id}_${TIER}.log | cut -c1-200)"
done
