#!/bin/bash
# usage: tools/run_seeded.sh <patch.diff> <PROP> [tier]   - apply a seeded change to /repo, run the check, always undo it.
PATCH="$1"; PROP="$2"; TIER="${3:-quick}"
cd /verif
if ! git -C /repo diff --quiet; then echo "repo dirty"; exit 3; fi
git -C /repo apply "$PATCH" 2>/dev/null || (cd /repo && patch -p1 -s -F3 --no-backup-if-mismatch < "$PATCH") || { git -C /repo checkout -- .; echo "patch does not apply"; exit 3; }
VERIF_NOEVID=1 ./check "$PROP" --tier "$TIER" --no-evidence > /tmp/seeded_out.txt 2>&1
rc=$?
git -C /repo checkout -- . ; git -C /repo clean -fdq -- src
grep -E "^(VIOLATION|KNOWN|HARNESS|UNCONF|ENCOD|INCONC|C[0-9]+ \[)" /tmp/seeded_out.txt | cut -c1-260 | head -12
echo "exit=$rc"
exit $rc
