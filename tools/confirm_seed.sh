#!/bin/bash
# usage: tools/confirm_seed.sh <dir with patch.diff demo.py notes.md> <PROP> <name>
# Confirms in a scratch worktree: patch applies, demo fails with it and passes without, baseline suite still passes.
# On success copies the seed to /verif/seeded/<name>/ with meta.json.  The scratch worktree is always removed.
SRC="$1"; PROP="$2"; NAME="$3"
WT=/tmp/wt/confirm_$NAME
git -C /repo worktree add -q --detach "$WT" HEAD || exit 3
cp /repo/src/pygaps/_version.py "$WT/src/pygaps/_version.py" 2>/dev/null
cd "$WT"
res() { echo "$NAME: $1"; cd /; git -C /repo worktree remove --force "$WT"; exit $2; }
PYTHONPATH="$WT/src" timeout 600 /venv/bin/python "$SRC/demo.py" > /tmp/wt/confirm_$NAME.clean.log 2>&1; rc_clean=$?
(git apply "$SRC/patch.diff" 2>/dev/null || patch -p1 -s -F3 --no-backup-if-mismatch < "$SRC/patch.diff") || res "patch does not apply" 1
git diff > /tmp/wt/confirm_$NAME.patch
PYTHONPATH="$WT/src" timeout 600 /venv/bin/python "$SRC/demo.py" > /tmp/wt/confirm_$NAME.mut.log 2>&1; rc_mut=$?
/verif/tools/suite_vs_baseline.sh "$WT" > /tmp/wt/confirm_$NAME.suite.log 2>&1; rc_suite=$?
[ $rc_clean -eq 0 ] || res "demo fails on clean tree (rc=$rc_clean)" 1
[ $rc_mut -ne 0 ] || res "demo passes with the change" 1
[ $rc_suite -eq 0 ] || res "baseline suite broken: $(tail -3 /tmp/wt/confirm_$NAME.suite.log | tr '\n' ' ')" 1
D=/verif/seeded/$NAME; mkdir -p "$D"
cp /tmp/wt/confirm_$NAME.patch "$D/patch.diff"; cp "$SRC/demo.py" "$D/demo.py"; cp "$SRC/notes.md" "$D/notes.md" 2>/dev/null
/venv/bin/python - "$D" "$PROP" "$NAME" "$(git -C /repo rev-parse --short HEAD)" <<'PY'
import json, sys, os
d, prop, name, head = sys.argv[1:5]
notes = open(os.path.join(d, 'notes.md')).read() if os.path.exists(os.path.join(d, 'notes.md')) else ''
meta = {'property': prop, 'name': name, 'repo_head_when_confirmed': head,
        'needs_to_manifest': notes[:1500],
        'confirmed': {'patch_applies': True, 'demo_exit_clean': 0, 'demo_fails_with_change': True,
                      'baseline_suite_with_change': 'all 514 baseline-stable tests pass (tools/suite_vs_baseline.sh)'},
        'detected_by': None}
json.dump(meta, open(os.path.join(d, 'meta.json'), 'w'), indent=1)
PY
res "confirmed" 0
