#!/bin/bash
# Build the overlay venv: /venv (repo deps) + z3 / cvc5 / crosshair / sympy from the offline wheelhouse.
set -e
HERE="$(cd "$(dirname "${BASH_SOURCE[0]}")" && pwd)"
cd "$HERE"
if [ -x .venv/bin/python ] && .venv/bin/python -c 'import z3, crosshair, pygaps' >/dev/null 2>&1; then
  echo "venv ok"; exit 0
fi
rm -rf .venv
/venv/bin/python -m venv .venv
SP=$(.venv/bin/python -c 'import sysconfig; print(sysconfig.get_paths()["purelib"])')
cat > "$SP/_venv_overlay.pth" <<PTH
import site; site.addsitedir('/venv/lib/python3.12/site-packages')
PTH
PIP_NO_INDEX=1 .venv/bin/python -m pip install --no-index --find-links /opt/veriftools/wheels -q z3-solver crosshair-tool cvc5 sympy
.venv/bin/python -c 'import z3, crosshair, pygaps; print("venv built", z3.get_version_string())'
