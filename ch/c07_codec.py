"""CrossHair (E2) contracts for the CSV metadata codec of pyGAPS (C07).

Each private function is a property over calls of the real functions; `crosshair check` searches for a
counterexample of its postcondition over all paths within the per-condition budget."""
from typing import List, Optional

from pygaps.parsing import csv as pcsv
from pygaps.utilities.exceptions import ParsingError
from pygaps.utilities.string_utilities import _from_list, _to_string, cast_string

SEP = ','


class LineIO:
    """pure-Python stand-in for io.StringIO (keeps strings symbolic)"""

    def __init__(self, text=''):
        self.buf = text
        self.pos = 0

    def write(self, s):
        self.buf += s

    def writelines(self, lines):
        for x in lines:
            self.buf += x

    def getvalue(self):
        return self.buf

    def readline(self):
        i = self.buf.find('\n', self.pos)
        if i < 0:
            out = self.buf[self.pos:]
            self.pos = len(self.buf)
            return out
        out = self.buf[self.pos:i + 1]
        self.pos = i + 1
        return out


def _rt_int(n: int) -> object:
    """
    pre: -1000 < n < 1000
    post: _ == n and type(_) is int
    """
    return cast_string(_to_string(n))


def _rt_bool(b: bool) -> object:
    """
    post: _ is b
    """
    return cast_string(_to_string(b))


def _rt_none() -> object:
    """
    post: _ is None
    """
    return cast_string(_to_string(None))


def _rt_int_list(xs: List[int]) -> object:
    """
    pre: len(xs) <= 2 and all(-100 < x < 100 for x in xs)
    post: _ == xs
    """
    return cast_string(_to_string(xs))


def _is_plain_text(s: str) -> bool:
    """the CSV value domain for text: not the spelling of none / bool / number / list, no separator, newline or padding"""
    if s == '' or s != s.strip() or SEP in s or '\n' in s or '\r' in s:
        return False
    low = s.lower()
    if low in ('none', 'true', 'false'):
        return False
    if s.isnumeric():
        return False
    if s[0] in '+-.0123456789iInN' or s[0] == '[':
        return False          # (conservative: anything that could start a number, inf/nan or a list)
    return True


def _rt_text(s: str) -> object:
    """
    pre: len(s) <= 3 and _is_plain_text(s)
    post: _ == s and type(_) is str
    """
    return cast_string(_to_string(s))


def _metadata_line(key: str, val: str) -> object:
    """
    The writer line `key + sep + _to_string(val)` followed by the reader's split / cast.
    pre: len(key) <= 2 and len(val) <= 2 and _is_plain_text(key) and _is_plain_text(val)
    post: _ == (key, val)
    raises: ParsingError
    """
    line = key + SEP + _to_string(val) + '\n'
    values = line.rstrip().strip().split(sep=SEP)
    if len(values) > 2:
        raise ParsingError('more than two values')
    k, v = values
    return (k, cast_string(v))


def _rt_neg_int(n: int) -> object:
    """
    pre: -100000 < n < 0
    post: _ == n and type(_) is int
    """
    return cast_string(_to_string(n))


def _text_never_silently_changed(s: str) -> object:
    """
    Any text value either comes back unchanged or is one of the documented special spellings.
    pre: len(s) <= 3 and SEP not in s and chr(10) not in s and chr(13) not in s
    post: (_ == s and type(_) is str) or _special(s)
    raises: ValueError
    """
    return cast_string(_to_string(s))


def _special(s: str) -> bool:
    """spellings the format reserves: none, booleans, numbers, lists, and the empty string"""
    if s == '' or s.lower() in ('none', 'true', 'false') or s.isnumeric():
        return True
    if s[:1] == '[' and s[-1:] == ']':
        return True
    try:
        float(s)
        return True
    except ValueError:
        return False


# predicates used to replay CrossHair counterexamples on the real code (result first, then the arguments)
CHECKS = {
    '_rt_int': lambda r, n: r == n and type(r) is int,
    '_rt_neg_int': lambda r, n: r == n and type(r) is int,
    '_rt_bool': lambda r, b: r is b,
    '_rt_none': lambda r: r is None,
    '_rt_int_list': lambda r, xs: r == xs,
    '_rt_text': lambda r, s: r == s and type(r) is str,
    '_metadata_line': lambda r, key, val: r == (key, val),
    '_text_never_silently_changed': lambda r, s: (r == s and type(r) is str) or _special(s),
}
RAISES = {'_metadata_line': (ParsingError,), '_text_never_silently_changed': (ValueError,)}
REGIONS = {}
