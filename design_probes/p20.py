exec(open('p19.py').read().split("# pressure")[0])
lstates=[dict(loading_basis='molar',loading_unit='mmol'),dict(loading_basis='mass',loading_unit='g'),dict(loading_basis='fraction',loading_unit=None),dict(loading_basis='percent',loading_unit=None)]
for st in lstates:
    for b in [None,'molar','mass','volume_liquid','fraction','percent','bogus']:
        for u in [None,'mmol','mg','cm3','bogus']:
            trial(f"L {st['loading_basis']} -> basis={b} unit={u}", mk(**st), lambda i: i.convert_loading(basis_to=b,unit_to=u))
mstates=[(dict(material_basis='mass',material_unit='g'),'molar'),(dict(material_basis='volume',material_unit='cm3'),'molar'),(dict(material_basis='mass',material_unit='g',loading_basis='fraction',loading_unit=None),'fraction')]
for st,lb in mstates:
    for b in [None,'mass','volume','molar','bogus']:
        for u in [None,'kg','cm3','mol','bogus']:
            trial(f"M {st['material_basis']}/{lb} -> basis={b} unit={u}", mk(**st), lambda i: i.convert_material(basis_to=b,unit_to=u))
for tu in ['K','°C']:
    for u in [None,'K','°C','C','celsius','kelvin','bogus']:
        trial(f"T {tu} -> {u}", mk(temperature_unit=tu), lambda i: i.convert_temperature(u))
for (k,o,v,c),n in sorted(rows.items()):
    flag = '  <<<' if v=='INVALID' or (o!='ok' and c=='changed') else ''
    if flag or o not in ('ok','ParameterError','CalculationError'): print(k,'|',o,v,c,flag, ex[(k,o,v,c)][1])
print(len(rows))
