import sys, time, faulthandler, logging; sys.path.insert(0,'/tmp/probe')
logging.disable(logging.CRITICAL)
faulthandler.dump_traceback_later(280, exit=True)
import z3, sqlite3, collections
from symreal import *
import minisql, pygaps
from pygaps.parsing import sqlite as pgs
import pygaps.data as pgd
schema=minisql.parse_schema()
print({t:(list(v['cols']),v['fks']) for t,v in schema.items()})
class SQ:
    def __getattr__(s,k): return getattr(sqlite3,k)
pgs.sqlite3=SQ()
A=[pygaps.Adsorbate('aa0', formula='X0'), pygaps.Adsorbate('aa1', molar_mass=3.0)]
def pre_db():
    db=minisql.DB(schema)
    for i,a in enumerate(A):
        pa=z3.Bool(f'has_{a.name}')
        db.rows['adsorbates'].append([pa,{'id':i+1,'name':a.name}])
    for j,t in enumerate(['formula','molar_mass','alias']):
        db.rows['adsorbate_properties_type'].append([z3.Bool(f'type_{t}'),{'id':j+1,'type':t,'unit':None,'description':None}])
    # properties: present only if owner present (FK) -- encode as And
    db.rows['adsorbate_properties'].append([z3.And(z3.Bool('has_aa0'),z3.Bool('type_formula'),z3.Bool('prop_a0_formula')),{'id':1,'ads_id':1,'type':'formula','value':'X0'}])
    db.rows['adsorbate_properties'].append([z3.And(z3.Bool('has_aa0'),z3.Bool('type_alias'),z3.Bool('prop_a0_alias')),{'id':2,'ads_id':1,'type':'alias','value':'aa0'}])
    return db
def op(which, overwrite):
    store=minisql.Store(pre_db()); pgs.sqlite3.connect=store.connect
    before=list(pgd.ADSORBATE_LIST)
    try:
        pgs.adsorbate_to_db(A[which], db_path='x', overwrite=overwrite, verbose=False); out='ok'
    except Exception as e:
        out=type(e).__name__
    finally:
        pgd.ADSORBATE_LIST[:]=before
    # read back through the API on committed state
    got=pgs.adsorbates_from_db(db_path='x', verbose=False)
    return out, sorted((a.name, tuple(sorted((k,str(v)) for k,v in a.properties.items()))) for a in got), [c.trace[-2:] for c in store.conns[:1]]
EX.base=[]
for which in (0,1):
  for ow in (False,True):
    t0=time.time()
    res=explore(lambda: op(which,ow))
    cnt=collections.Counter()
    for pc,defs,(k,r) in res:
        if k!='ok': cnt['EXC '+repr(r)[:80]]+=1; continue
        cnt[(r[0],)]+=1
    print(which,ow,len(res),'paths',round(time.time()-t0,2),dict(cnt))
