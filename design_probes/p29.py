import sys, time, faulthandler, types, logging; sys.path.insert(0,'/tmp/probe')
logging.disable(logging.CRITICAL)
faulthandler.dump_traceback_later(280, exit=True)
from fakes import *
from pygaps.modelling import base_model, get_isotherm_model
from pygaps.core.modelisotherm import ModelIsotherm
import pygaps.core.modelisotherm as mim
from pygaps.utilities.exceptions import CalculationError
k=3
ps=[z3.Real(f'p{i}') for i in range(k)]; ns=[z3.Real(f'n{i}') for i in range(k)]
xs={'K':z3.Real('xK'),'n_m':z3.Real('xnm')}
cap={}
class Res: pass
def ls_stub(fun=None, x0=None, bounds=None, args=(), **kw):
    cap['bounds']=bounds; cap['x0']=x0
    xv=numpy.array([SR(xs['K']),SR(xs['n_m'])],dtype=object)
    r=fun(xv,*args)
    o=Res(); o.success=True; o.x=xv; o.fun=r; return o
class OPT: least_squares=staticmethod(ls_stub)
base_model.optimize=OPT
EX.base=[ps[0]>0]+[ps[i]<ps[i+1] for i in range(k-1)]+[ns[0]>0]+[ns[i]<ns[i+1] for i in range(k-1)]+[xs['K']>0,xs['n_m']>0]
def run():
    m=get_isotherm_model('Langmuir', pressure_range=(SR(ps[0]),SR(ps[-1])), loading_range=(SR(ns[0]),SR(ns[-1])))
    P=numpy.array([SR(p) for p in ps],dtype=object); N=numpy.array([SR(n) for n in ns],dtype=object)
    g=m.initial_guess(P,N)
    m.fit(P,N,g)
    return m, g
t0=time.time()
res=explore(run)
print('paths',len(res),round(time.time()-t0,2))
for pc,defs,(kk,r) in res[:3]:
    if kk!='ok': print('EXC',repr(r)[:200]); continue
    m,g=r
    rm=toz(m.rmse)
    resid=[xs['n_m']*xs['K']*p/(1+xs['K']*p)-n for p,n in zip(ps,ns)]
    rng=ns[-1]-ns[0]
    s=z3.Solver(); s.set('timeout',60000); s.add(*pc,*defs)
    s.add(z3.Or(rm*rm*k*rng*rng != sum(x*x for x in resid), rm<0, toz(m.params['K'])!=xs['K'], toz(m.params['n_m'])!=xs['n_m']))
    print('rmse identity', s.check(), 'bounds', cap['bounds'], round(time.time()-t0,2))
