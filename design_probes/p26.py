import sys, time, faulthandler, types, logging; sys.path.insert(0,'/tmp/probe')
logging.disable(logging.CRITICAL)
faulthandler.dump_traceback_later(280, exit=True)
import z3, numpy
from symreal import *
import symreal
from pygaps.iast import pgiast
from pygaps.core.modelisotherm import ModelIsotherm
from pygaps.core.material import Material
from pygaps.modelling import get_isotherm_model
class NP(types.ModuleType):
    def __getattr__(s,k): return getattr(numpy,k)
    def zeros(s,shape,*a,**k):
        z=numpy.empty(shape,dtype=object); z[...]=0; return z
pgiast.numpy=NP('numpy')
n=2
xs=[z3.Real(f'x{i}') for i in range(n-1)]
class Res: pass
def root_stub(fun, x0, method=None):
    x=numpy.array([SR(v) for v in xs],dtype=object)
    r=fun(x)
    EX.defs += [toz(v)==0 for v in r]
    o=Res(); o.success=True; o.x=x; return o
class OPT: root=staticmethod(root_stub)
pgiast.optimize=OPT
def mkiso(model, params):
    iso=ModelIsotherm.__new__(ModelIsotherm)
    iso._material=Material('m'); iso._adsorbate=None; iso._temperature=300.0; iso.temperature_unit='K'
    iso.pressure_mode='absolute'; iso.pressure_unit='bar'; iso.loading_basis='molar'; iso.loading_unit='mmol'; iso.material_basis='mass'; iso.material_unit='g'
    iso.branch='ads'; iso.properties={}
    m=get_isotherm_model(model); m.params=params; m.pressure_range=(0.0,1e9); m.loading_range=(0.0,1e9)
    iso.model=m
    return iso
M,K1,K2,p1,p2=z3.Reals('M K1 K2 p1 p2')
pre=[M>0,K1>0,K2>0,p1>0,p2>0]+[z3.And(x>0,x<1) for x in xs]
EX.base=pre
def run(model):
    if model=='Langmuir':
        isos=[mkiso('Langmuir',{'K':SR(K1),'n_m':SR(M)}), mkiso('Langmuir',{'K':SR(K2),'n_m':SR(M)})]
    else:
        isos=[mkiso('Henry',{'K':SR(K1)}), mkiso('Henry',{'K':SR(K2)})]
    r=pgiast.iast_point(isos, numpy.array([SR(p1),SR(p2)],dtype=object), warningoff=True, adsorbed_mole_fraction_guess=[0.5,0.5])
    return r, list(EX.exps)
for model in ['Henry','Langmuir']:
    t0=time.time()
    res=explore(lambda: run(model))
    for pc,defs,(k,r) in res:
        if k!='ok': print(model,'EXC',repr(r)[:70]); continue
        L,ex=r
        L=[toz(v) for v in L]
        if model=='Langmuir':
            goal=[L[0]==M*K1*p1/(1+K1*p1+K2*p2), L[1]==M*K2*p2/(1+K1*p1+K2*p2)]
        else:
            goal=[L[0]==K1*p1, L[1]==K2*p2]
        s=z3.Solver(); s.set('timeout',60000); s.add(*pc,*defs); s.add(*symreal.exp_axioms(ex, closure=False))
        s.add(z3.Not(z3.And(goal)))
        print(model,'closed form:',s.check(),round(time.time()-t0,2))
