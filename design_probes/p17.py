import sys, time, faulthandler; sys.path.insert(0,'/tmp/probe')
faulthandler.dump_traceback_later(280, exit=True)
import z3, sqlite3, collections
from symreal import *
import pygaps
from pygaps.parsing import sqlite as pgs
import pygaps.data as pgd

class Crash(BaseException): pass
_c=[0]
def fb(name):
    _c[0]+=1; return EX.branch(z3.Bool(f'{name}!{len(EX.trace)}'))
class Row(dict):
    def keys(self): return list(dict.keys(self))
    def __getitem__(self,k):
        if isinstance(k,int): return list(self.values())[k]
        return dict.__getitem__(self,k)
    def __iter__(self): return iter(self.values())
class FakeCursor:
    def __init__(self, conn): self.conn=conn; self.lastrowid=7; self.rows=[]
    def execute(self, sql, params=()):
        c=self.conn
        c.trace.append(('execute', sql.split()[0], sql))
        n=sum(1 for t in c.trace if t[0]=='execute')
        if c.fault_at is not None and n==c.fault_at:
            c.trace.append(('fault', c.fault_kind.__name__))
            raise c.fault_kind('injected')
        kind=sql.split()[0].upper()
        if kind=='SELECT':
            cols=None
            nrows = 0 if not fb('row1') else (1 if not fb('row2') else 2)
            if 'properties_type' in sql or 'isotherm_type' in sql: self.rows=[Row(id=i,type=f'ptype{i}',unit=None,description=None) for i in range(nrows)]
            elif 'FROM "adsorbates"' in sql or "FROM 'adsorbates'" in sql: self.rows=[Row(id=i,name=f'ads{i}') for i in range(nrows)]
            elif 'FROM "materials"' in sql or 'FROM materials' in sql: self.rows=[Row(id=i,name=f'mat{i}') for i in range(nrows)]
            else: self.rows=[Row(id=i,type='x',value=1) for i in range(nrows)]
        return self
    def fetchone(self): return self.rows[0] if self.rows else None
    def fetchall(self): return list(self.rows)
    def __iter__(self): return iter(self.rows)
class FakeConn:
    def __init__(self, path): self.trace=[('connect',path)]; self.row_factory=None
    def cursor(self): self.trace.append(('cursor',)); return FakeCursor(self)
    def commit(self): self.trace.append(('commit',))
    def rollback(self): self.trace.append(('rollback',))
    def close(self): self.trace.append(('close',))
conns=[]
def connect(path, *a, **k):
    c=FakeConn(path); c.fault_at=CFG['k']; c.fault_kind=CFG['kind']; conns.append(c); return c
class SQ:
    def __getattr__(s,k): return getattr(sqlite3,k)
    connect=staticmethod(connect)
pgs.sqlite3=SQ()
CFG={'k':None,'kind':sqlite3.OperationalError}
def op_ads():
    conns.clear()
    a=pygaps.Adsorbate('zzz', alias=['z1'], formula='Z', molar_mass=1.0)
    before=list(pgd.ADSORBATE_LIST)
    try:
        pgs.adsorbate_to_db(a, db_path='/nonexistent/x.db', verbose=False, overwrite=CFG.get('ow',False))
        out='ok'
    except BaseException as e:
        if isinstance(e,(Abort,)): raise
        out=type(e).__name__
    finally:
        leaked = len(pgd.ADSORBATE_LIST)-len(before)
        pgd.ADSORBATE_LIST[:] = before
    return out, [c.trace for c in conns], leaked
EX.base=[]
summary=collections.Counter()
for ow in (False,True):
  CFG['ow']=ow
  for kind in (sqlite3.IntegrityError, sqlite3.InterfaceError, sqlite3.OperationalError, Crash):
    for k in [None]+list(range(1,12)):
        CFG['k']=k; CFG['kind']=kind
        res=explore(op_ads)
        for pc,defs,(kk,r) in res:
            if kk!='ok': summary[('EXC',repr(r)[:60])]+=1; continue
            out,traces,leaked=r
            ok = len(traces)==1
            tr=[t[0] for t in traces[0]]
            faulted='fault' in tr
            commits=tr.count('commit')
            good = ok and ((not faulted and out=='ok' and commits==1 and tr[-2:]==['commit','close']) or (out!='ok' and commits==0 and (tr[-1]=='close')) )
            summary[(ow, kind.__name__, 'good' if good else f'BAD out={out} commits={commits} conns={len(traces)} tail={tr[-3:]}', 'leak' if leaked and out!='ok' else '')]+=1
for k_,v in sorted(summary.items(), key=str): print(v,k_)
