import logging, warnings
logging.disable(logging.CRITICAL); warnings.filterwarnings('ignore')
import numpy, pygaps
import pygaps.characterisation as pgc
def mk():
    return pygaps.PointIsotherm(pressure=[0.1,0.2,0.3,0.5,1.0],loading=[1.,1.8,2.4,3.,3.5],material='zz',adsorbate='nitrogen',temperature=77.0,pressure_mode='absolute',pressure_unit='bar',loading_basis='molar',loading_unit='mmol',material_basis='mass',material_unit='g',temperature_unit='K')
def out(f):
    try: return ('ok', f())
    except Exception as e: return (type(e).__name__, str(e)[:40])
a=mk(); print('fresh sp(5):', out(lambda: a.spreading_pressure_at(5.0))[0])
b=mk(); b.loading_at(0.2); print('after loading_at sp(5):', out(lambda: b.spreading_pressure_at(5.0))[0])
c=mk(); c.loading_at(0.2, interp_fill=3.5); print('after loading_at(fill) sp(5):', out(lambda: c.spreading_pressure_at(5.0)))
d=mk(); d.loading_at(0.2, branch='des') if d.has_branch('des') else None
e=mk(); print('fresh sp(0.05):', out(lambda: e.spreading_pressure_at(0.05)))
f=mk(); f.loading_at(0.2); print('after loading_at sp(0.05):', out(lambda: f.spreading_pressure_at(0.05)))
# whittaker mutation
g=mk(); u0=dict(g.units); id0=g.iso_id
r=out(lambda: pgc.enthalpy_sorption_whittaker(g, model='Langmuir'))
print('whittaker', r[0], 'units changed:', u0!=g.units, g.units['pressure_unit'], 'id changed', id0!=g.iso_id)
