import sys, time, faulthandler, logging, itertools, collections; sys.path.insert(0,'/tmp/probe')
logging.disable(logging.CRITICAL)
faulthandler.dump_traceback_later(580, exit=True)
from fakes import *
from pygaps.units.converter_mode import _PRESSURE_MODE,_LOADING_MODE,_MATERIAL_MODE
from pygaps.units.converter_unit import _PRESSURE_UNITS
class Opaque(str):
    """label the mutator must not read"""
    touched=False
    def _t(s,*a,**k): Opaque.touched=True; raise AssertionError('opaque label read')
    __eq__=_t; __ne__=_t; __hash__=_t; __bool__=_t; lower=_t; startswith=_t
v1,v2,l1,l2,T=z3.Reals('p1 p2 l1 l2 T')
st=FakeState('f')
EX.base=st.assumptions(T)+[T>0, z3.Real('rho_m')>0, z3.Real('M_m')>0]
preps=[('absolute',u) for u in _PRESSURE_UNITS]+[('relative',None),('relative%',None)]
args_mode=[None,'absolute','relative','relative%','bogus']
args_unit=[None]+list(_PRESSURE_UNITS)+['bogus']
def mk(pm,pu):
    ads=fake_adsorbate()
    mat=Material('m', density=SR(z3.Real('rho_m')), molar_mass=SR(z3.Real('M_m')))
    units=dict(pressure_mode=pm,pressure_unit=pu,loading_basis=Opaque('LB'),loading_unit=Opaque('LU'),material_basis=Opaque('MB'),material_unit=Opaque('MU'),temperature_unit='K')
    return sym_point_iso([SR(v1),SR(v2)],[SR(l1),SR(l2)],ads,SR(T),units,material=mat,extra={'x':[1.0,2.0]})
t0=time.time(); n=0; outcomes=collections.Counter()
for (pm,pu) in preps:
    for m in args_mode:
        for u in args_unit:
            def run():
                iso=mk(pm,pu)
                pre_load=[x for x in iso.data_raw['loading']]
                try:
                    iso.convert_pressure(mode_to=m, unit_to=u); out='ok'
                except AssertionError: raise
                except Exception as e: out=type(e).__name__
                return out, iso.pressure_mode, iso.pressure_unit, list(iso.data_raw['pressure']), [a is b for a,b in zip(pre_load, iso.data_raw['loading'])]
            res=explore(run)
            for pc,defs,(k,r) in res:
                n+=1
                if k!='ok': outcomes['EXC:'+type(r).__name__]+=1; continue
                outcomes[r[0]]+=1
print('runs',n,'time',round(time.time()-t0,2),dict(outcomes),'opaque touched',Opaque.touched)
