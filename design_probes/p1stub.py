import z3
from symreal import *
from pygaps.units.converter_unit import _PRESSURE_UNITS
class StubAds:
    def __init__(self):
        self.psat = z3.Real('psat_Pa'); self.M = z3.Real('M'); self.rl = z3.Real('rho_l_molar'); self.rg = z3.Real('rho_g_molar')
    def saturation_pressure(self, temp, unit=None):
        from pygaps.units.converter_unit import c_unit
        p = SR(self.psat)
        return c_unit(_PRESSURE_UNITS, p, 'Pa', unit) if unit is not None else p
    def molar_mass(self): return SR(self.M)
    def liquid_molar_density(self, temp): return SR(self.rl)
    def gas_molar_density(self, temp): return SR(self.rg)
    def liquid_density(self, temp): return SR(self.rl*self.M)
    def gas_density(self, temp): return SR(self.rg*self.M)

