import logging, collections, copy, itertools, warnings
logging.disable(logging.CRITICAL); warnings.filterwarnings('ignore')
import numpy, pygaps
from pygaps.core.baseisotherm import BaseIsotherm
from pygaps.units.converter_mode import _PRESSURE_MODE,_LOADING_MODE,_MATERIAL_MODE
from pygaps.units.converter_unit import _PRESSURE_UNITS
mat=pygaps.Material('zz', density=2.0, molar_mass=100.0)
def mk(**u):
    d=dict(pressure_mode='absolute',pressure_unit='bar',loading_basis='molar',loading_unit='mmol',material_basis='mass',material_unit='g',temperature_unit='K')
    d.update(u)
    return pygaps.PointIsotherm(pressure=[0.1,0.2,0.3],loading=[1.,2.,3.],material=mat,adsorbate='nitrogen',temperature=77.0,**d)
def valid(iso):
    try:
        BaseIsotherm(material='m',adsorbate='nitrogen',temperature=1,**iso.units); return True
    except Exception as e: return False
rows=collections.Counter()
ex={}
def trial(tag, iso, fn):
    before=(dict(iso.units), iso.data_raw.copy())
    try:
        fn(iso); out='ok'
    except Exception as e:
        out=type(e).__name__
    changed = (dict(iso.units)!=before[0]) or (not iso.data_raw.equals(before[1]))
    v=valid(iso)
    key=(tag,out,'valid' if v else 'INVALID','changed' if changed else 'same')
    rows[key]+=1; ex.setdefault(key,(before[0],dict(iso.units)))
# pressure
pstates=[dict(pressure_mode='absolute',pressure_unit='bar'),dict(pressure_mode='relative'),dict(pressure_mode='relative%')]
for st in pstates:
    for m in [None,'absolute','relative','relative%','bogus']:
        for u in [None,'bar','kPa','bogus']:
            trial(f"P {st.get('pressure_mode')} -> mode={m} unit={u}", mk(**st), lambda i: i.convert_pressure(mode_to=m,unit_to=u))
for (k,o,v,c),n in sorted(rows.items()):
    flag = '  <<<' if v=='INVALID' or (o!='ok' and c=='changed') else ''
    print(k,'|',o,v,c,flag)
