import sys, time; sys.path.insert(0,'/tmp/probe')
import z3
from symreal import *
from pygaps.units import converter_mode as cm
from pygaps.units.converter_unit import _PRESSURE_UNITS

class StubAds:
    def __init__(self):
        self.psat = z3.Real('psat_Pa'); self.M = z3.Real('M'); self.rl = z3.Real('rho_l_molar'); self.rg = z3.Real('rho_g_molar')
    def saturation_pressure(self, temp, unit=None):
        from pygaps.units.converter_unit import c_unit
        p = SR(self.psat)
        return c_unit(_PRESSURE_UNITS, p, 'Pa', unit) if unit is not None else p
    def molar_mass(self): return SR(self.M)
    def liquid_molar_density(self, temp): return SR(self.rl)
    def gas_molar_density(self, temp): return SR(self.rg)
    def liquid_density(self, temp): return SR(self.rl*self.M)
    def gas_density(self, temp): return SR(self.rg*self.M)

ads = StubAds()
v = z3.Real('v'); T = z3.Real('T')
pre = [ads.psat>0, ads.M>0, ads.rl>0, ads.rg>0, T>0]
SI = {"Pa":1,"kPa":1000,"MPa":10**6,"mbar":100,"bar":10**5,"atm":101325,"mmHg":z3.Q(133322,1000),"torr":z3.Q(133322,1000)}
reps = [('absolute',u) for u in _PRESSURE_UNITS]+[('relative',None),('relative%',None)]
def to_pa(rep):
    m,u = rep
    if m=='absolute': return z3.RealVal(1)*SI[u]
    if m=='relative': return ads.psat
    return ads.psat/100
EX.base = pre
t0=time.time(); n=0; bad=0
for a in reps:
    for b in reps:
        res = explore(lambda: cm.c_pressure(SR(v), a[0], b[0], a[1], b[1], adsorbate=ads, temp=SR(T)))
        for pc, defs, (k, r) in res:
            n+=1
            if k!='ok': print(a,b,'EXC',r); bad+=1; continue
            out = r.t if isinstance(r,SR) else toz(r)
            exp = v*to_pa(a)/to_pa(b)
            s=z3.Solver(); s.add(*pre,*pc,*defs)
            eps = z3.Q(1,10**12)
            s.add(z3.Not(z3.And(out-exp <= eps*z3.If(exp>=0,exp,-exp), exp-out <= eps*z3.If(exp>=0,exp,-exp))))
            rr=s.check()
            if str(rr)!='unsat': print(a,b,rr, s.model() if str(rr)=='sat' else ''); bad+=1
print('queries',n,'bad',bad,'time',time.time()-t0)
