import sys, time; sys.path.insert(0,'/tmp/probe')
import z3
from symreal import *
from pygaps.units import converter_mode as cm
from pygaps.units.converter_unit import _PRESSURE_UNITS
from p1stub import StubAds
ads = StubAds()
v = z3.Real('v'); T = z3.Real('T')
pre = [ads.psat>0, ads.M>0, ads.rl>0, ads.rg>0, T>0]
EX.base = pre
Q=z3.Q
MOL={"mmol":Q(1,1000),"mol":1,"kmol":1000,"cm3(STP)":Q(1,22414),"mL(STP)":Q(1,22414),"cc(STP)":Q(1,22414),"L(STP)":Q(1000,22414)}
MASS={'amu':Q(166054,10**29),'mg':Q(1,1000),'cg':Q(1,100),'dg':Q(1,10),'g':1,'kg':1000}
VOL={'cm3':1,'mL':1,'cc':1,'dm3':1000,'L':1000,'m3':10**6}
lreps=[('molar',u) for u in MOL]+[('mass',u) for u in MASS]+[('volume_gas',u) for u in VOL]+[('volume_liquid',u) for u in VOL]+[('fraction',None),('percent',None)]
mreps=[('mass',u) for u in MASS]+[('volume',u) for u in VOL]+[('molar',u) for u in MOL]
def mol_per(rep, mrep):
    b,u=rep
    if b=='molar': return z3.RealVal(1)*MOL[u]
    if b=='mass': return z3.RealVal(1)*MASS[u]/ads.M
    if b=='volume_gas': return z3.RealVal(1)*VOL[u]*ads.rg
    if b=='volume_liquid': return z3.RealVal(1)*VOL[u]*ads.rl
    mb,mu=mrep
    f = 1 if b=='fraction' else Q(1,100)
    if mb=='mass': return f*MASS[mu]/ads.M
    if mb=='volume': return f*VOL[mu]*ads.rl
    if mb=='molar': return f*MOL[mu]*z3.RealVal(1)
t0=time.time(); n=0; bad=0; badset=set()
for a in lreps:
    for b in lreps:
        ms = mreps if (a[1] is None or b[1] is None) else [('mass','g')]
        for m in ms:
            res = explore(lambda: cm.c_loading(SR(v), a[0], b[0], a[1], b[1], adsorbate=ads, temp=SR(T), basis_material=m[0], unit_material=m[1]))
            for pc, defs, (k, r) in res:
                n+=1
                if k!='ok': print(a,b,m,'EXC',repr(r)); bad+=1; continue
                out = r.t if isinstance(r,SR) else toz(r)
                exp = v*mol_per(a,m)/mol_per(b,m)
                s=z3.Solver(); s.add(*pre,*pc,*defs)
                eps = z3.Q(2,10**4)
                ab = z3.If(exp>=0,exp,-exp)
                s.add(z3.Not(z3.And(out-exp <= eps*ab, exp-out <= eps*ab)))
                rr=s.check()
                if str(rr)!='unsat':
                    bad+=1
                    key=(a[1] if 'amu' in str(a) else a, b[1] if 'amu' in str(b) else b)
                    if len(badset)<12 and key not in badset: badset.add(key); print(a,b,m,rr, s.model() if str(rr)=='sat' else '')
print('queries',n,'bad',bad,'time',time.time()-t0)
