import z3, numpy, pandas
from symreal import *
import pygaps
from pygaps.core.adsorbate import Adsorbate
from pygaps.core.material import Material
from pygaps.core.pointisotherm import PointIsotherm
from pygaps.utilities.coolprop_utilities import thermodynamic_backend, CP

class FakeState:
    """CoolProp AbstractState stand-in: values depend only on last update()."""
    def __init__(s, tag='f'):
        s.tag=tag; s.last=None
        s.PS=z3.Function(f'psat_{tag}', z3.RealSort(), z3.RealSort())
        s.RHO=z3.Function(f'rhomolar_{tag}', z3.RealSort(), z3.RealSort(), z3.RealSort())  # (q,T) mol/m3
        s.H=z3.Function(f'hmolar_{tag}', z3.RealSort(), z3.RealSort(), z3.RealSort())
        s.ST=z3.Function(f'sigma_{tag}', z3.RealSort(), z3.RealSort())
        s.M=z3.Real(f'Mkg_{tag}')
    def update(s, pair, a, b): s.last=(pair, toz(a), toz(b))
    def _qt(s):
        pair,a,b=s.last
        assert pair==CP.QT_INPUTS
        return a,b
    def p(s): q,T=s._qt(); return SR(s.PS(T))
    def rhomolar(s): q,T=s._qt(); return SR(s.RHO(q,T))
    def rhomass(s): q,T=s._qt(); return SR(s.RHO(q,T)*s.M)
    def hmolar(s): q,T=s._qt(); return SR(s.H(q,T))
    def surface_tension(s): q,T=s._qt(); return SR(s.ST(T))
    def molar_mass(s): return SR(s.M)
    def p_critical(s): return SR(z3.Real(f'pc_{s.tag}'))
    def T_critical(s): return SR(z3.Real(f'Tc_{s.tag}'))
    def Ttriple(s): return SR(z3.Real(f'Tt_{s.tag}'))
    def assumptions(s, T):
        T=toz(T)
        return [s.M>0, s.PS(T)>0, s.RHO(0,T)>0, s.RHO(1,T)>0, s.ST(T)>0]

def fake_adsorbate(name='fakegas', tag='f', **props):
    a=Adsorbate(name, backend_name='FAKE', **props)
    a._backend_mode=thermodynamic_backend(); a._state=FakeState(tag)
    return a

def sym_point_iso(ps, ns, ads, T, units, material=None, branch=None, extra=None):
    iso = PointIsotherm.__new__(PointIsotherm)
    iso._material = material or Material('symmat')
    iso._adsorbate = ads
    iso._temperature = T; 
    for k,v in units.items(): setattr(iso,k,v)
    iso.pressure_key='pressure'; iso.loading_key='loading'
    d={'pressure': numpy.array(list(ps),dtype=object), 'loading': numpy.array(list(ns),dtype=object), 'branch': branch or [0]*len(ps)}
    if extra: d.update(extra)
    iso.data_raw = pandas.DataFrame(d)
    iso.l_interpolator=None; iso.p_interpolator=None; iso.properties={}
    return iso
