"""Throwaway probe: z3-backed real proxy + replay-based path explorer."""
import z3, fractions, math, numbers

class Abort(BaseException): pass
class NanPath(Exception): pass

class Explorer:
    def __init__(self):
        self.reset()
    def reset(self):
        self.prefix = []      # decisions to replay
        self.trace = []       # decisions taken this run
        self.pc = []          # path condition (z3 bools)
        self.solver = z3.Solver()
        self.todo = []
        self.defs = []
        self.base = []; self.logs = []; self.exps = []
    def assume(self, c):
        self.pc.append(c)
    def branch(self, cond):
        i = len(self.trace)
        if i < len(self.prefix):
            d = self.prefix[i]
        else:
            # decide feasibility
            s = z3.Solver(); s.set('timeout', 20000)
            s.add(*self.pc); s.add(*self.defs)
            s.push(); s.add(cond); rt = s.check(); s.pop()
            s.push(); s.add(z3.Not(cond)); rf = s.check(); s.pop()
            t_ok = str(rt) != 'unsat'; f_ok = str(rf) != 'unsat'
            if t_ok and f_ok:
                self.todo.append(self.trace + [False]); d = True
            elif t_ok: d = True
            elif f_ok: d = False
            else: raise Abort('infeasible path')
        self.trace.append(d)
        self.pc.append(cond if d else z3.Not(cond))
        return d

EX = Explorer()

def toz(x):
    if isinstance(x, SR): return x.t
    if isinstance(x, z3.ArithRef): return x
    if isinstance(x, bool): raise TypeError
    if isinstance(x, int): return z3.RealVal(x)
    if isinstance(x, float):
        if math.isinf(x) or math.isnan(x): raise TypeError('nonfinite')
        return z3.RealVal(repr(x)) if 'e' not in repr(x) else z3.RealVal(str(fractions.Fraction(repr(x))))
    if hasattr(x, 'item'): return toz(x.item())
    raise TypeError(type(x))

_cnt = [0]
def fresh(name='t'):
    _cnt[0] += 1
    return z3.Real(f'{name}!{_cnt[0]}')

LOG = z3.Function('ln', z3.RealSort(), z3.RealSort())
EXP = z3.Function('exp', z3.RealSort(), z3.RealSort())

class SB:
    def __init__(self, c): self.c = c
    def __bool__(self): return EX.branch(self.c)
    def __and__(self, o): return SB(z3.And(self.c, o.c if isinstance(o, SB) else z3.BoolVal(bool(o))))
    def __or__(self, o): return SB(z3.Or(self.c, o.c if isinstance(o, SB) else z3.BoolVal(bool(o))))
    def __invert__(self): return SB(z3.Not(self.c))
    def __rand__(self, o): return self if o else False
    def __ror__(self, o): return True if o else self
    def __add__(self, o): return int(bool(self)) + (int(bool(o)) if isinstance(o, SB) else o)
    __radd__ = __add__

class SR:
    __array_priority__ = 1000
    def __init__(self, t): self.t = t
    def _b(self, o, f):
        if hasattr(o,'ndim') and getattr(o,'ndim',0)>0: return NotImplemented
        try: oz = toz(o)
        except TypeError: return NotImplemented
        return SR(f(self.t, oz))
    def _rb(self, o, f):
        if hasattr(o,'ndim') and getattr(o,'ndim',0)>0: return NotImplemented
        try: oz = toz(o)
        except TypeError: return NotImplemented
        return SR(f(oz, self.t))
    def __add__(s,o): return s._b(o, lambda a,b:a+b)
    def __radd__(s,o): return s._rb(o, lambda a,b:a+b)
    def __sub__(s,o): return s._b(o, lambda a,b:a-b)
    def __rsub__(s,o): return s._rb(o, lambda a,b:a-b)
    def __mul__(s,o): return s._b(o, lambda a,b:a*b)
    def __rmul__(s,o): return s._rb(o, lambda a,b:a*b)
    def __neg__(s): return SR(-s.t)
    def __pos__(s): return s
    def _div(a, b):
        if z3.is_rational_value(b) and b.numerator_as_long()!=0: return a / b
        if EX.branch(b == 0):
            if EX.branch(a == 0): raise NanPath('0/0')
            raise NanPath('x/0')
        return a / b
    def __truediv__(s,o): return s._b(o, SR._div)
    def __rtruediv__(s,o): return s._rb(o, SR._div)
    def __pow__(s, o):
        if isinstance(o, int) or (isinstance(o, float) and o == int(o)):
            n = int(o)
            if n == 0: return SR(z3.RealVal(1))
            r = s.t
            for _ in range(abs(n)-1): r = r * s.t
            return SR(r) if n > 0 else SR(SR._div(z3.RealVal(1), r))
        if isinstance(o, (float, fractions.Fraction)) or (isinstance(o, SR) and z3.is_rational_value(z3.simplify(o.t))):
            q = fractions.Fraction(str(z3.simplify(o.t))) if isinstance(o, SR) else fractions.Fraction(o).limit_denominator(1000)
            return s.ratpow(q)
        # general power: exp(o*ln(s))
        return (SR(toz(o)) * s.log()).exp()
    def ratpow(s, q):
        a, b = q.numerator, q.denominator
        if b == 1: return s ** a
        # y >= 0, y^b = x^|a| ; requires x >= 0
        if not (s >= 0): raise NanPath('negative base to fractional power')
        y = fresh('root'); yb = y
        for _ in range(b-1): yb = yb*y
        xa = s.t
        for _ in range(abs(a)-1): xa = xa*s.t
        EX.defs += [y >= 0, yb == xa]
        r = SR(y)
        return r if a > 0 else 1/r
    def __rpow__(s, o):
        return (s * SR(toz(o)).log()).exp()
    def sqrt(s):
        y = fresh('sqrt'); EX.defs += [y*y == s.t, y >= 0]; return SR(y)
    def log(s):
        if not (s > 0): raise NanPath('log of nonpositive')
        for (y, x) in EX.logs:
            if z3.eq(x, s.t): return SR(y)
        y = fresh('ln'); EX.logs.append((y, s.t)); EX.exps.append((y, s.t)); return SR(y)
    def exp(s):
        for (y, x) in EX.exps:
            if z3.eq(y, s.t): return SR(x)
        x = fresh('exp'); EX.exps.append((s.t, x)); return SR(x)
    def _inf(o):
        try:
            f = float(o) if isinstance(o,(int,float)) or hasattr(o,'dtype') else None
        except Exception: f=None
        return f if f is not None and math.isinf(f) else None
    def __lt__(s,o):
        i=SR._inf(o)
        return (i>0) if i is not None else SB(s.t < toz(o))
    def __le__(s,o):
        i=SR._inf(o)
        return (i>0) if i is not None else SB(s.t <= toz(o))
    def __gt__(s,o):
        i=SR._inf(o)
        return (i<0) if i is not None else SB(s.t > toz(o))
    def __ge__(s,o):
        i=SR._inf(o)
        return (i<0) if i is not None else SB(s.t >= toz(o))
    def __eq__(s,o):
        try: return SB(s.t == toz(o))
        except TypeError: return False
    def __ne__(s,o):
        try: return SB(s.t != toz(o))
        except TypeError: return True
    def __bool__(s): return EX.branch(s.t != 0)
    def __hash__(s): return id(s)
    def __repr__(s): return f'SR({s.t})'
    def __float__(s): raise TypeError('symbolic real cannot be concretised')

def exp_axioms(pairs, closure=False):
    # pairs (y, x) meaning x = exp(y)
    import itertools
    ax=[]
    base = list(pairs)+[(z3.RealVal(0), z3.RealVal(1))]
    derived=[]
    if closure:
        bp=list(pairs)
        for (y1,x1),(y2,x2) in itertools.combinations_with_replacement(bp,2):
            derived.append((y1+y2, x1*x2))
        for (y1,x1),(y2,x2) in itertools.permutations(bp,2):
            derived.append((y1-y2, x1/x2))
    for y,x in base: ax.append(x>0)
    for (y1,x1),(y2,x2) in itertools.combinations(base,2):
        ax.append((y1<y2)==(x1<x2)); ax.append((y1==y2)==(x1==x2))
    for (y1,x1) in derived:
        for (y2,x2) in base:
            ax.append((y1<y2)==(x1<x2)); ax.append((y1==y2)==(x1==x2))
    return ax
def explore(fn):
    """run fn() over all feasible paths; yields (pc, defs, result|exception)"""
    EX.todo = [[]]
    out = []
    while EX.todo:
        pre = EX.todo.pop()
        todo = EX.todo
        EX.prefix = pre; EX.trace = []; EX.pc = list(EX.base); EX.defs = []; EX.logs = []; EX.exps = []
        try:
            r = ('ok', fn())
        except Abort:
            continue
        except Exception as e:
            r = ('exc', e)
        out.append((list(EX.pc), list(EX.defs)+exp_axioms(EX.exps), r))
    return out

import numpy
def _box(x):
    b = numpy.empty((), dtype=object); b[()] = x; return b
def _ufunc(self, ufunc, method, *inputs, **kw):
    if method != '__call__': return NotImplemented
    name = ufunc.__name__
    a = inputs
    if any(isinstance(x, numpy.ndarray) for x in a):
        arrs = numpy.broadcast_arrays(*[x if isinstance(x, numpy.ndarray) else _box(x) for x in a])
        out = numpy.empty(arrs[0].shape, dtype=object)
        for idx in numpy.ndindex(arrs[0].shape):
            args = [ar[idx] for ar in arrs]
            args = [SR(toz(x)) if not isinstance(x, SR) and i==0 and not any(isinstance(y,SR) for y in args) else x for i,x in enumerate(args)]
            out[idx] = _ufunc(self, ufunc, method, *args, **kw) if any(isinstance(y,SR) for y in args) else ufunc(*args)
        return out
    if name == 'sqrt': return a[0].sqrt()
    if name == 'log': return a[0].log()
    if name == 'exp': return a[0].exp()
    if name == 'isnan': return numpy.bool_(False)
    if name == 'isfinite': return numpy.bool_(True)
    if name in ('multiply',): return (a[0] * a[1]) if isinstance(a[0], SR) else (a[1].__rmul__(a[0]))
    if name in ('add',): return (a[0] + a[1]) if isinstance(a[0], SR) else (a[1].__radd__(a[0]))
    if name in ('subtract',): return (a[0] - a[1]) if isinstance(a[0], SR) else (a[1].__rsub__(a[0]))
    if name in ('true_divide','divide'): return (a[0] / a[1]) if isinstance(a[0], SR) else (a[1].__rtruediv__(a[0]))
    if name == 'power': return (a[0] ** a[1]) if isinstance(a[0], SR) else (a[1].__rpow__(a[0]))
    if name == 'negative': return -a[0]
    if name == 'absolute': return a[0] if (a[0] >= 0) else -a[0]
    if name in ('less','greater','less_equal','greater_equal','equal','not_equal'):
        import operator
        op = {'less':operator.lt,'greater':operator.gt,'less_equal':operator.le,'greater_equal':operator.ge,'equal':operator.eq,'not_equal':operator.ne}[name]
        x,y = a
        if not isinstance(x, SR): x = SR(toz(x))
        return op(x,y)
    raise NotImplementedError(name)
SR.__array_ufunc__ = _ufunc
