import sys, time, faulthandler, types, logging, copy, itertools; sys.path.insert(0,'/tmp/probe')
logging.disable(logging.CRITICAL)
faulthandler.dump_traceback_later(280, exit=True)
from fakes import *
import json as realjson
from pygaps.parsing import json as pj
import pygaps
class J:
    def __getattr__(s,k): return getattr(realjson,k)
    @staticmethod
    def dumps(obj, **kw):
        J.last=obj; return '<<doc>>'
    @staticmethod
    def loads(s): 
        # identity on JSON values (tuples->lists), deep copy
        def norm(o):
            if isinstance(o,dict): return {str(k):norm(v) for k,v in o.items()}
            if isinstance(o,(list,tuple)): return [norm(v) for v in o]
            return o
        return norm(J.last)
pj.json=J()
k=3
ps=[z3.Real(f'p{i}') for i in range(k)]; ns=[z3.Real(f'n{i}') for i in range(k)]; es=[z3.Real(f'e{i}') for i in range(k)]
EX.base=[]
U=dict(pressure_mode='absolute',pressure_unit='bar',loading_basis='molar',loading_unit='mmol',material_basis='mass',material_unit='g',temperature_unit='K')
def run(branch):
    iso=pygaps.PointIsotherm(pressure=[SR(p) for p in ps], loading=[SR(n) for n in ns], branch=list(branch), material='mm', adsorbate='nitrogen', temperature=77.0, note='x', num=3, **U)
    iso.data_raw['enth']=numpy.array([SR(e) for e in es],dtype=object)
    doc=pj.isotherm_to_json(iso)
    back=pj.isotherm_from_json(doc)
    return iso, back
for branch in itertools.product([0,1],repeat=k):
    res=explore(lambda: run(branch))
    for pc,defs,(kk,r) in res:
        if kk!='ok': print(branch,'EXC',repr(r)[:100]); continue
        iso,back=r
        same_cols=list(iso.data_raw.columns)==list(back.data_raw.columns)
        vals_ok=all(str(a)==str(b) for a,b in zip(iso.data_raw.values.ravel(), back.data_raw.values.ravel()))
        br=(list(iso.data_raw['branch']), list(back.data_raw['branch']))
        print(branch, 'cols',same_cols, list(back.data_raw.columns), 'vals',vals_ok, 'branch', br[0]==br[1], br[1], 'dict eq', iso.to_dict()==back.to_dict())
