import sys, time, faulthandler; sys.path.insert(0,'/tmp/probe')
faulthandler.dump_traceback_later(280, exit=True)
import z3, numpy
from symreal import *
from pygaps.characterisation import psd_meso
from pygaps.characterisation.models_thickness import thickness_zero
k=int(sys.argv[1])
ps=[z3.Real(f'p{i}') for i in range(k)]; vs=[z3.Real(f'v{i}') for i in range(k)]
RK=z3.Function('rk',z3.RealSort(),z3.RealSort())
def kelvin(p): 
    return numpy.array([SR(RK(toz(x))) for x in p],dtype=object)
def tzero(p):
    z=numpy.empty(len(p),dtype=object); z[...]=0; return z
pre=[ps[0]>0]+[ps[i]<ps[i+1] for i in range(k-1)]+[ps[-1]<1]+[vs[0]>=0]+[vs[i]<=vs[i+1] for i in range(k-1)]
pre+=[RK(p)>0 for p in ps]+[RK(ps[i])<RK(ps[i+1]) for i in range(k-1)]
EX.base=pre
for fn,geo in [(psd_meso.psd_pygapsdh,'slit'),(psd_meso.psd_pygapsdh,'cylinder'),(psd_meso.psd_pygapsdh,'sphere'),(psd_meso.psd_bjh,'cylinder'),(psd_meso.psd_dollimore_heal,'cylinder')]:
    t0=time.time()
    res=explore(lambda: fn(numpy.array([SR(v) for v in vs],dtype=object), numpy.array([SR(p) for p in ps],dtype=object), geo, tzero, kelvin))
    for pc,defs,(kk,r) in res:
        if kk!='ok': print(fn.__name__,geo,'EXC',repr(r)[:80]); continue
        pv=[toz(x) for x in r['pore_volumes']]; w=[toz(x) for x in r['pore_widths']]; dist=[toz(x) for x in r['pore_distribution']]
        goal=[pv[i]==vs[i+1]-vs[i] for i in range(k-1)]+[w[i]==2*RK(ps[i]) for i in range(k-1)]
        goal+=[dist[i]*(2*RK(ps[i+1])-2*RK(ps[i]))==pv[i] for i in range(k-1)]
        s=z3.Solver(); s.set('timeout',60000); s.add(*pc,*defs); s.add(z3.Not(z3.And(goal)))
        print(fn.__name__,geo,len(res),'paths ->',s.check(),round(time.time()-t0,2))
