import sys, time, faulthandler; sys.path.insert(0,'/tmp/probe')
faulthandler.dump_traceback_later(280, exit=True)
import z3, numpy
from symreal import *
import symreal
from pygaps.characterisation import dr_da_plots as dd
from scipy import constants
# L1: DR transform linearises: for n = n0*exp(-(RT ln(1/p)/E)^m) [mol], logv = ln(n*M/rho) ; x = (-ln p)^m  => logv = ln(n0 M/rho) - (RT/E)^m x
SR.item = lambda s: s
for m in [1,2,3]:
    n0,E,M,rho,T,p=z3.Reals('n0 E M rho T p')
    pre=[n0>0,E>0,M>0,rho>0,T>0,p>0,p<1]
    EX.base=pre
    R=toz(constants.gas_constant)
    def run():
        P=SR(p)
        A = (SR(R*T) * (-P.log()) / SR(E))
        n = SR(n0) * ((-(A**m)).exp())
        x = dd.log_p_exp(numpy.array([P],dtype=object), m)[0]
        y = dd.log_v_adj(numpy.array([n],dtype=object), SR(M), SR(rho))[0]
        return x,y,list(EX.exps)
    t0=time.time()
    res=explore(run)
    for pc,defs,(k,r) in res:
        if k!='ok': print('EXC',repr(r)[:80],[str(c)[:40] for c in pc[len(pre):]]); continue
        x,y,ex=r
        # oracle: y = ln(n0*M/rho) - (RT/E)^m * x ; ln via fresh var
        l0=z3.Real('l0'); e0=n0*M/rho
        def pw(b,k_):
            r_=b
            for _ in range(k_-1): r_=r_*b
            return r_
        s=z3.Solver(); s.set('timeout',60000); s.add(*pc,*defs)
        # tie l0 = ln(e0) using exp pairs injectivity
        pairs=ex+[(l0,e0)]
        s.add(*symreal.exp_axioms(pairs, closure=True))
        s.add(toz(y) != l0 - pw(R*T/E,m)*toz(x))
        print('DA m=',m, s.check(), round(time.time()-t0,2))
