import logging, collections, copy, itertools, warnings
logging.disable(logging.CRITICAL); warnings.filterwarnings('ignore')
import numpy, pygaps
mat=pygaps.Material('zz', density=2.0, molar_mass=100.0)
def mk(**u):
    d=dict(pressure_mode='absolute',pressure_unit='bar',loading_basis='molar',loading_unit='mmol',material_basis='mass',material_unit='g',temperature_unit='K')
    d.update(u)
    return pygaps.PointIsotherm(pressure=[0.1,0.2,0.3],loading=[1.,2.,3.],material=mat,adsorbate='nitrogen',temperature=77.0,**d)
stored=[dict(),dict(loading_basis='mass',loading_unit='mg'),dict(loading_basis='fraction',loading_unit=None),dict(loading_basis='percent',loading_unit=None),dict(material_basis='volume',material_unit='cm3'),dict(loading_basis='fraction',loading_unit=None,material_basis='volume',material_unit='cm3')]
req_l=[dict(loading_basis='mass',loading_unit='g'),dict(loading_unit='mol'),dict(loading_basis='fraction'),dict(loading_basis='percent'),dict(loading_basis='volume_liquid',loading_unit='cm3'),dict()]
req_m=[dict(),dict(material_basis='volume',material_unit='cm3'),dict(material_basis='molar',material_unit='mol'),dict(material_unit='kg'),dict(material_basis='mass',material_unit='kg')]
res=collections.Counter(); exs={}
def safe(f):
    try: return ('ok', numpy.asarray(f(),dtype=float))
    except Exception as e: return (type(e).__name__, None)
for st in stored:
  for rl in req_l:
    for rm in req_m:
        kw={**rl,**rm}
        if not kw: continue
        iso=mk(**st)
        a=safe(lambda: iso.loading(**kw))
        a2=safe(lambda: iso.loading_at(0.2, **kw))
        c=mk(**st)
        conv=safe(lambda: (c.convert(**kw), c.loading())[1])
        conv2=safe(lambda: c.loading_at(0.2))
        def cmp(x,y):
            if x[0]!='ok' or y[0]!='ok': return f'{x[0]}/{y[0]}'
            return 'equal' if numpy.allclose(x[1],y[1],rtol=1e-9) else 'DIFF'
        k1=cmp(a,conv); k2=cmp(a2,conv2)
        res[('loading()',k1)]+=1; res[('loading_at',k2)]+=1
        if k1 not in('equal',): exs.setdefault(('loading()',k1),[]).append((st,kw))
        if k2 not in('equal',): exs.setdefault(('loading_at',k2),[]).append((st,kw))
for k,v in sorted(res.items()): print(v,k)
for k,v in exs.items():
    print(k, len(v)); 
    for e in v[:4]: print('    ',e)
