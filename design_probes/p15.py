import sys, time, faulthandler; sys.path.insert(0,'/tmp/probe')
faulthandler.dump_traceback_later(280, exit=True)
import z3, numpy, pandas
from symreal import *
import symreal
from pygaps.core.pointisotherm import PointIsotherm
from pygaps.core.material import Material
from pygaps.utilities import isotherm_interpolator as ii
import pygaps.core.pointisotherm as pim
k=int(sys.argv[1])
ps=[z3.Real(f'p{i}') for i in range(k)]; ns=[z3.Real(f'n{i}') for i in range(k)]
class LinInterp:
    def __init__(self, x, y, kind='linear', fill_value=None, bounds_error=None):
        self.x=list(x); self.y=list(y); self.be = (fill_value is None) if bounds_error is None else bounds_error; self.fill=fill_value
    def __call__(self, q):
        q = q[()] if isinstance(q, numpy.ndarray) and q.shape==() else q
        x,y=self.x,self.y
        if q < x[0] or q > x[-1]:
            if self.be: raise ValueError('out of bounds')
            return SR(toz(self.fill))
        for i in range(len(x)-1):
            if q <= x[i+1]:
                return y[i] + (y[i+1]-y[i])*(q-x[i])/(x[i+1]-x[i])
ii.interp1d = LinInterp
def mk():
    iso = PointIsotherm.__new__(PointIsotherm)
    iso._material = Material('m'); iso._adsorbate=None
    iso._temperature = 300.0; iso.temperature_unit='K'
    iso.pressure_mode='absolute'; iso.pressure_unit='bar'
    iso.loading_basis='molar'; iso.loading_unit='mmol'
    iso.material_basis='mass'; iso.material_unit='g'
    iso.pressure_key='pressure'; iso.loading_key='loading'
    iso.data_raw = pandas.DataFrame({'pressure': numpy.array([SR(p) for p in ps],dtype=object), 'loading': numpy.array([SR(n) for n in ns],dtype=object), 'branch':[0]*k})
    iso.l_interpolator=None; iso.p_interpolator=None; iso.properties={}
    return iso
q=z3.Real('q')
pre=[ps[0]>0]+[ps[i]<ps[i+1] for i in range(k-1)]+[ns[0]>0]+[ns[i]<ns[i+1] for i in range(k-1)]+[q>0]
EX.base=pre
t0=time.time()
res=explore(lambda: mk().spreading_pressure_at(SR(q)))
print('paths',len(res),round(time.time()-t0,2))
for pc,defs,(kk,r) in res:
    tail=[str(c)[:30] for c in pc[len(pre):]]
    print(kk, (repr(r)[:70] if kk!='ok' else 'term'), tail[:6])
