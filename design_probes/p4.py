import z3, time, itertools
R=z3.Real
EXP=z3.Function('exp',z3.RealSort(),z3.RealSort())
def axioms(args, triples=True):
    ax=[]
    args=list(args)+[z3.RealVal(0)]
    for a in args: ax.append(EXP(a)>0)
    ax.append(EXP(z3.RealVal(0))==1)
    for a,b in itertools.combinations(args,2):
        ax.append((a<b)==(EXP(a)<EXP(b)))
        ax.append((a==b)==(EXP(a)==EXP(b)))
    if triples:
        for r in args:
            for s,t in itertools.combinations_with_replacement(args,2):
                ax.append(z3.Implies(r==s+t, EXP(r)==EXP(s)*EXP(t)))
    return ax
def check(name, cons, goal, args, **kw):
    s=z3.Solver(); s.set('timeout',120000)
    s.add(*cons); s.add(*axioms(args, **kw)); s.add(z3.Not(goal))
    t=time.time(); r=s.check(); print(name, r, round(time.time()-t,2))
    if str(r)=='sat': print(s.model())
# Freundlich
K,m,p,lp,lq=R('K'),R('m'),R('p'),R('lp'),R('lq')
u=EXP((1/m)*lp); n=K*u; q=n/K
out=EXP(m*lq)
check('freundlich',[K>0,m>0,p>0,EXP(lp)==p,EXP(lq)==q],out==p,[lp,(1/m)*lp,lq,m*lq], triples=False)
# Toth: n = nm*K*p/(1+(Kp)^t)^(1/t); P = (n/(nm K))/(1-(n/nm)^t)^(1/t)
nm,t=R('nm'),R('t')
lkp,l1,lr,l2=R('lkp'),R('l1'),R('lr'),R('l2')
Kp=K*p
c=[nm>0,K>0,t>0,p>0, EXP(lkp)==Kp]
u=EXP(t*lkp)              # (Kp)^t
c+= [EXP(l1)==1+u]        # l1 = ln(1+u)
d=EXP((1/t)*l1)           # (1+u)^(1/t)
n=nm*Kp/d
r=n/nm
c+=[EXP(lr)==r]           # lr = ln(n/nm)
w=EXP(t*lr)               # (n/nm)^t
c+=[EXP(l2)==1-w]         # requires 1-w>0
e=EXP((1/t)*l2)
out=(n/(nm*K))/e
args=[lkp,t*lkp,l1,(1/t)*l1,lr,t*lr,l2,(1/t)*l2]
check('toth-notriples',c+[1-w>0],out==p,args,triples=False)
check('toth',c+[1-w>0],out==p,args)
