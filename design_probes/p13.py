import sys, time, faulthandler, fractions; sys.path.insert(0,'/tmp/probe')
faulthandler.dump_traceback_later(400, exit=True)
import z3, numpy
from symreal import *
from pygaps.characterisation import psd_micro
from scipy import constants
cap={}
class Res: pass
def ms_stub(fun, method=None, bounds=None):
    cap['fun']=fun; cap['bounds']=bounds
    L=z3.Real('L'); r=Res(); r.x=SR(L); return r
class OPT: minimize_scalar=staticmethod(ms_stub)
psd_micro.optimize=OPT
sym = len(sys.argv)>1 and sys.argv[1]=='sym'
if sym:
    names=['molecular_diameter','polarizability','magnetic_susceptibility','surface_density']
    adsP={k:SR(z3.Real('a_'+k)) for k in names}; matP={k:SR(z3.Real('m_'+k)) for k in names}
    adsP.update(liquid_density=SR(z3.Real('rho')), adsorbate_molar_mass=SR(z3.Real('M')))
    T=SR(z3.Real('T'))
else:
    from pygaps.characterisation.models_hk import HK_KEYS, get_hk_model
    matP=get_hk_model('Carbon(HK)')
    adsP=dict(molecular_diameter=0.3, polarizability=1.76e-3, magnetic_susceptibility=3.6e-8, surface_density=6.71e18, liquid_density=0.806, adsorbate_molar_mass=28.0134)
    T=77.355
p=z3.Real('p'); n0,n1=z3.Reals('n0 n1'); p1=z3.Real('p1')
L=z3.Real('L')
allv=[toz(v) for v in list(adsP.values())+list(matP.values())+[T]]
pre=[v>0 for v in allv if not z3.is_rational_value(v)]+[p>0,p1>p,n0>0,n1>n0]
d_eff=(toz(adsP['molecular_diameter'])+toz(matP['molecular_diameter']))/2
pre+=[L>2*d_eff+z3.Q(1,1000), L<50]
EX.base=pre
def run():
    return psd_micro.psd_horvath_kawazoe([SR(p),SR(p1)],[SR(n0),SR(n1)],T,'slit',adsP,matP)
t0=time.time()
res=explore(run)
print('paths',len(res),round(time.time()-t0,2), [k for _,_,(k,r) in res], [repr(r)[:200] for _,_,(k,r) in res if k!='ok'][:3])
# evaluate captured objective on symbolic L
def ev():
    return cap['fun'](SR(L))
res2=explore(ev)
print('objective paths',len(res2))
for pc,defs,(k,r) in res2:
    if k!='ok': print('EXC',repr(r)[:100]); continue
    obj=toz(r)
    # oracle: HK slit (published): RT ln p = N_A (n_a A_a + n_A A_A)/(sigma^4 (L-2d)) [ s^4/(3(L-d)^3) - s^10/(9(L-d)^9) - s^4/(3 d^3) + s^10/(9 d^9) ]
    da=toz(adsP['molecular_diameter']); dm=toz(matP['molecular_diameter'])
    pa=toz(adsP['polarizability'])*z3.RealVal('1e-27'.replace('1e-27','1/1000000000000000000000000000')); pm=toz(matP['polarizability'])/z3.RealVal(10**27)
    pa=toz(adsP['polarizability'])/z3.RealVal(10**27)
    xa=toz(adsP['magnetic_susceptibility'])/z3.RealVal(10**27); xm=toz(matP['magnetic_susceptibility'])/z3.RealVal(10**27)
    na=toz(adsP['surface_density']); nmm=toz(matP['surface_density'])
    me=toz(constants.electron_mass); c=toz(constants.speed_of_light)
    Aa=z3.RealVal(3)/2*me*c*c*pa*xa
    Am=6*me*c*c*pa*pm/(pa/xa+pm/xm)
    d=(da+dm)/2
    sg=toz(0.8583742)*d
    NRT=toz(constants.Avogadro)/toz(constants.gas_constant)/toz(T)
    sg4=sg*sg*sg*sg; sg10=sg4*sg4*sg*sg
    def pw(x,n):
        r=x
        for _ in range(n-1): r=r*x
        return r
    sSI=sg/z3.RealVal(10**9)
    phi=NRT*(na*Aa+nmm*Am)/(pw(sSI,4)*(L-2*d))*( sg4/(3*pw(L-d,3)) - sg10/(9*pw(L-d,9)) - sg4/(3*pw(d,3)) + sg10/(9*pw(d,9)) )
    # objective should be (exp(phi)-p)^2 : find exp pair
    exps=[(y,x) for (y,x) in EX.exps]
    print('exp terms',len(exps))
    y,x=exps[-1]
    s=z3.Solver(); s.set('timeout',200000); s.add(*pc,*defs)
    tol=z3.Q(1,10**6)
    ab=lambda e: z3.If(e>=0,e,-e)
    s.add(z3.Or(ab(y-phi)>tol*ab(phi), obj!=(x-p)*(x-p)))
    t1=time.time(); print('identity', s.check(), round(time.time()-t1,2))
    m=s.model(); print(m[L], m.eval(y), m.eval(phi))
    import math
    Lf=float(m[L].as_fraction()) if m[L] is not None else 1.0
    print('L',Lf)
