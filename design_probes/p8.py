import sys, time, faulthandler; sys.path.insert(0,'/tmp/probe')
faulthandler.dump_traceback_later(280, exit=True)
import z3, numpy, collections
from symreal import *
from pygaps.characterisation import area_bet
calls=[]
def linregress_stub(x, y):
    calls.append((list(x), list(y)))
    s=z3.Real('slope'); i=z3.Real('icpt')
    return SR(s), SR(i), SR(z3.Real('r')), None, None
class S: linregress=staticmethod(linregress_stub)
area_bet.stats = S
k=int(sys.argv[1]); mode=sys.argv[2]
cs = z3.Real('cs')
ps=[z3.Real(f'p{i}') for i in range(k)]
ns=[z3.Real(f'n{i}') for i in range(k)]
pre=[cs>0, z3.Real('slope')>0, z3.Real('icpt')>0]+[ps[0]>0]+[ps[i]<ps[i+1] for i in range(k-1)]+[ps[-1]<1]+[ns[0]>0]+[ns[i]<ns[i+1] for i in range(k-1)]
EX.base=pre
lo,hi=z3.Reals('lo hi')
def run():
    calls.clear()
    lim = (SR(lo),SR(hi)) if mode=='lim' else None
    r = area_bet.area_BET_raw([SR(p) for p in ps],[SR(n) for n in ns], SR(cs), p_limits=lim)
    return r, list(calls)
t0=time.time()
res=explore(run)
print('paths',len(res), round(time.time()-t0,2))
cnt=collections.Counter()
for pc,defs,(kk,r) in res:
    if kk!='ok': cnt[type(r).__name__+':'+str(r)[:40]]+=1; continue
    (area,c_const,n_mono,p_mono,slope,icpt,mn,mx,cc),cl = r
    cnt[f'ok:{mn},{mx}:{len(cl[0][0])}']+=1
for k_,v in sorted(cnt.items()): print(v,k_)
