import sys, time; sys.path.insert(0,'/tmp/probe')
import z3, numpy
from symreal import *
from pygaps.characterisation import area_bet
from scipy import stats
# stub linregress: contract = normal equations
def linregress_stub(x, y):
    x=list(x); y=list(y); n=len(x)
    s=fresh('slope'); i=fresh('icpt')
    r0 = sum(((yy - SR(s)*xx - SR(i)) for xx,yy in zip(x,y)), SR(z3.RealVal(0)))
    r1 = sum((xx*(yy - SR(s)*xx - SR(i)) for xx,yy in zip(x,y)), SR(z3.RealVal(0)))
    EX.defs += [r0.t==0, r1.t==0]
    return SR(s), SR(i), SR(fresh('r')), None, None
class S: linregress=staticmethod(linregress_stub)
area_bet.stats = S
k=int(sys.argv[1]) if len(sys.argv)>1 else 4
nm,C,cs = z3.Reals('nm C cs')
ps=[z3.Real(f'p{i}') for i in range(k)]
pre=[nm>0,C>1,cs>0]+[ps[0]>0]+[ps[i]<ps[i+1] for i in range(k-1)]+[ps[-1]<1]
EX.base=pre
def bet(p): return nm*C*p/((1-p)*(1-p+C*p))
def run():
    return area_bet.area_BET_raw([SR(p) for p in ps],[SR(bet(p)) for p in ps], SR(cs), p_limits=(SR(z3.Real('lo')),SR(z3.Real('hi'))))
t0=time.time()
res=explore(run)
print('paths',len(res), round(time.time()-t0,2))
import collections
cnt=collections.Counter()
for pc,defs,(kk,r) in res:
    if kk!='ok': cnt[type(r).__name__+':'+str(r)[:50]]+=1; continue
    area,c_const,n_mono,p_mono,slope,icpt,mn,mx,cc = r
    s=z3.Solver(); s.set('timeout',30000); s.add(*pc,*defs)
    s.add(z3.Or(n_mono.t!=nm, c_const.t!=C))
    rr=s.check(); cnt['ok:'+str(rr)+f':{mn},{mx}']+=1
print(cnt, round(time.time()-t0,2))
