"""Prototype MiniSQL: relational store with symbolic row presence, for the statement shapes pyGAPS issues."""
import re, sqlite3, z3
from symreal import EX, SB
from pygaps.utilities import sqlite_db_pragmas as prag

def parse_schema():
    tables={}
    for stmt in prag.PRAGMAS if hasattr(prag,'PRAGMAS') else [v for k,v in vars(prag).items() if isinstance(v,str) and 'CREATE TABLE' in v]:
        for m in re.finditer(r'CREATE TABLE\s+["`](\w+)["`]\s*\((.*?)\);', stmt, re.S):
            name, body = m.group(1), m.group(2)
            cols={}; fks=[]
            for line in body.split('\n'):
                line=line.strip().rstrip(',')
                cm=re.match(r'[`"\'](\w+)[`"\']\s+(\w+)(.*)', line)
                if cm and not line.upper().startswith('FOREIGN'):
                    cols[cm.group(1)]={'type':cm.group(2),'notnull':'NOT NULL' in cm.group(3),'unique':'UNIQUE' in cm.group(3),'pk':'PRIMARY KEY' in cm.group(3),'auto':'AUTOINCREMENT' in cm.group(3)}
                fm=re.match(r'FOREIGN KEY\([`"\'](\w+)[`"\']\)\s+REFERENCES\s+[`"\'](\w+)[`"\']\([`"\'](\w+)[`"\']\)', line)
                if fm: fks.append((fm.group(1),fm.group(2),fm.group(3)))
            tables[name]={'cols':cols,'fks':fks}
    return tables

class Row:
    def __init__(s, d): s.d=dict(d)
    def keys(s): return list(s.d.keys())
    def __getitem__(s,k): return list(s.d.values())[k] if isinstance(k,int) else s.d[k]
    def __iter__(s): return iter(s.d.values())
    def __len__(s): return len(s.d)

class DB:
    """rows: table -> list of [presence(bool|z3 Bool), dict]."""
    def __init__(s, schema): s.schema=schema; s.rows={t:[] for t in schema}; s.auto={t:100 for t in schema}
    def clone(s):
        d=DB(s.schema); d.rows={t:[[p,dict(r)] for p,r in rs] for t,rs in s.rows.items()}; d.auto=dict(s.auto); return d
    def present(s, p):
        if isinstance(p,bool): return p
        return EX.branch(p)
    def live(s, t): return [r for p,r in s.rows[t] if s.present(p)]

class Cursor:
    def __init__(s, conn): s.conn=conn; s.result=[]; s.lastrowid=None
    def execute(s, sql, params=()):
        conn=s.conn; conn.trace.append(sql)
        db=conn.work
        sql_=sql.strip().rstrip(';')
        if sql_.upper().startswith('PRAGMA'): return s
        m=re.match(r'INSERT INTO\s+"(\w+)"\s*\((.*?)\)\s*VALUES\s*\((.*?)\)', sql_, re.S)
        if m:
            t=m.group(1); cols=[c.strip() for c in m.group(2).split(',')]
            row={c:params.get(c) for c in cols}
            sch=db.schema[t]
            for c,meta in sch['cols'].items():
                if meta['auto'] and row.get(c) is None:
                    db.auto[t]+=1; row[c]=db.auto[t]; s.lastrowid=row[c]
                row.setdefault(c,None)
                if meta['notnull'] and row[c] is None: raise sqlite3.IntegrityError(f'NOT NULL constraint failed: {t}.{c}')
            for c,meta in sch['cols'].items():
                if meta['unique'] or meta['pk']:
                    for r in db.live(t):
                        if r[c]==row[c]: raise sqlite3.IntegrityError(f'UNIQUE constraint failed: {t}.{c}')
            for c,rt,rc in sch['fks']:
                if row[c] is not None and not any(r[rc]==row[c] for r in db.live(rt)):
                    raise sqlite3.IntegrityError('FOREIGN KEY constraint failed')
            db.rows[t].append([True,row]); return s
        m=re.match(r'SELECT\s+(.*?)\s+FROM\s+["\']?(\w+)["\']?(?:\s+WHERE\s+(.*))?$', sql_, re.S)
        if m:
            sel=[c.strip() for c in m.group(1).split(',')]; t=m.group(2); where=m.group(3)
            rows=db.live(t)
            if where:
                im=re.match(r'(\w+)\s+IN\s*\((.*?)\)', where.strip())
                if im: rows=[r for r in rows if r[im.group(1)] in tuple(params)]
                else:
                    for cond in re.split(r'\s+AND\s+', where):
                        c,_,v=cond.partition('='); c=c.strip(); v=v.strip().lstrip(':')
                        rows=[r for r in rows if r[c]==params[v]]
            s.result=[Row(r if sel==['*'] else {c:r[c] for c in sel}) for r in rows]
            return s
        m=re.match(r'DELETE FROM\s+"(\w+)"\s+WHERE\s+(.*)$', sql_, re.S)
        if m:
            t=m.group(1); conds=[c.partition('=')[0].strip() for c in re.split(r'\s+AND\s+', m.group(2))]
            keep=[]
            for pr in db.rows[t]:
                p,r=pr
                if db.present(p) and all(r[c]==params[c] for c in conds):
                    # FK restrict: any live row in other tables referencing this row
                    for t2,sch2 in db.schema.items():
                        for c,rt,rc in sch2['fks']:
                            if rt==t and any(r2[c]==r[rc] for r2 in db.live(t2)):
                                raise sqlite3.IntegrityError('FOREIGN KEY constraint failed')
                    continue
                keep.append(pr)
            db.rows[t]=keep; return s
        m=re.match(r'UPDATE\s+"(\w+)"\s+SET\s+(.*?)\s+WHERE\s+(.*)$', sql_, re.S)
        if m:
            t=m.group(1); sets=[c.partition('=')[0].strip() for c in m.group(2).split(',')]; conds=[c.partition('=')[0].strip() for c in re.split(r'\s+AND\s+', m.group(3))]
            for pr in db.rows[t]:
                p,r=pr
                if db.present(p) and all(r[c]==params[c] for c in conds):
                    for c in sets: r[c]=params[c]
            return s
        raise NotImplementedError(sql)
    def fetchone(s): return s.result[0] if s.result else None
    def fetchall(s): return list(s.result)
    def __iter__(s): return iter(s.result)

class Conn:
    def __init__(s, store): s.store=store; s.work=store.committed.clone(); s.trace=[]; s.row_factory=None; s.closed=False
    def cursor(s): return Cursor(s)
    def commit(s): s.store.committed=s.work.clone(); s.trace.append('COMMIT')
    def rollback(s): s.work=s.store.committed.clone(); s.trace.append('ROLLBACK')
    def close(s): s.closed=True; s.trace.append('CLOSE')
class Store:
    def __init__(s, db): s.committed=db; s.conns=[]
    def connect(s, path, *a, **k): c=Conn(s); s.conns.append(c); return c
