import sys, time, faulthandler, fractions; sys.path.insert(0,'/tmp/probe')
faulthandler.dump_traceback_later(580, exit=True)
import z3, numpy
from symreal import *
import symreal
from p9 import ddx
from pygaps.modelling import get_isotherm_model
F=fractions.Fraction
def run(name, fixed={}, extra=lambda P,p:[], cap=None):
    m = get_isotherm_model(name)
    names = [m.param_names] if isinstance(m.param_names,str) else list(m.param_names)
    P = {k: (z3.RealVal(str(fixed[k])) if k in fixed else z3.Real(k)) for k in names}
    m.params = {k: (fixed[k] if k in fixed else SR(v)) for k,v in P.items()}
    p = z3.Real('p'); q=z3.Real('q')
    pre=[P[k]>0 for k in names if k not in fixed]+[p>0,q>p]+extra(P,p)+extra(P,q)
    EX.base=pre
    t0=time.time()
    res=explore(lambda: (m.loading(SR(p)), m.loading(SR(q))))
    for pc,defs,(k,r) in res:
        if k!='ok': print(name,fixed,'EXC',repr(r)[:60]); continue
        lp,lq=r
        out=[]
        # monotone via two-point form: p<q => n(p) <= n(q)
        s=z3.Solver(); s.set('timeout',60000); s.add(*pc,*defs); s.add(toz(lp)>toz(lq)); out.append(('mono2pt',str(s.check())))
        s=z3.Solver(); s.set('timeout',60000); s.add(*pc,*defs); s.add(toz(lp)<0); out.append(('nonneg',str(s.check())))
        if cap:
            s=z3.Solver(); s.set('timeout',60000); s.add(*pc,*defs); s.add(toz(lp)>cap(P)); out.append(('cap',str(s.check())))
        print(name,fixed,out,round(time.time()-t0,2))
run('Henry'); run('Langmuir',cap=lambda P:P['n_m']); run('DSLangmuir',cap=lambda P:P['n_m1']+P['n_m2']); run('TSLangmuir',cap=lambda P:P['n_m1']+P['n_m2']+P['n_m3'])
run('BET',extra=lambda P,p:[P['N']*p<1]); run('GAB',extra=lambda P,p:[P['K']*p<1])
run('Quadratic',cap=lambda P:2*P['n_m'])
run('TemkinApprox',extra=lambda P,p:[P['tht']<=3],cap=lambda P:P['n_m'])
for t in [F(1,2),1,2]: run('Toth',{'t':t},cap=lambda P:P['n_m'])
for c in [1,2]: run('JensenSeaton',{'c':c})
print('--- sanity: expect sat')
run('TemkinApprox',extra=lambda P,p:[P['tht']>3])
run('BET',extra=lambda P,p:[])
