import sys, time; sys.path.insert(0,'/tmp/probe')
import z3, numpy, pandas
from symreal import *
from p1stub import StubAds
import pygaps
from pygaps.core.pointisotherm import PointIsotherm
from pygaps.core.material import Material
ads = StubAds()
T = z3.Real('T')
v1,v2,l1,l2 = z3.Reals('p1 p2 l1 l2')
pre=[ads.psat>0, ads.M>0, ads.rl>0, ads.rg>0, T>0]
EX.base=pre
def mk():
    iso = PointIsotherm.__new__(PointIsotherm)
    iso._material = Material('m', density=SR(z3.Real('rho_m')), molar_mass=SR(z3.Real('M_m')))
    iso._adsorbate = ads
    iso._temperature = SR(T); iso.temperature_unit='K'
    iso.pressure_mode='absolute'; iso.pressure_unit='bar'
    iso.loading_basis='molar'; iso.loading_unit='mmol'
    iso.material_basis='mass'; iso.material_unit='g'
    iso.pressure_key='pressure'; iso.loading_key='loading'
    iso.data_raw = pandas.DataFrame({'pressure': numpy.array([SR(v1),SR(v2)],dtype=object), 'loading': numpy.array([SR(l1),SR(l2)],dtype=object), 'branch':[0,0]})
    iso.l_interpolator=None; iso.p_interpolator=None
    iso.properties={}
    return iso
def run():
    iso=mk()
    iso.convert_pressure(mode_to='relative%')
    iso.convert_loading(basis_to='mass', unit_to='kg')
    iso.convert_material(basis_to='volume', unit_to='m3')
    return iso
t0=time.time()
res=explore(run)
print(len(res), time.time()-t0)
for pc,defs,(k,r) in res:
    if k=='ok':
        print(r.units); print(r.data_raw.iloc[0].tolist())
    else:
        import traceback; traceback.print_exception(r)
