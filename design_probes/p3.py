import sys, time; sys.path.insert(0,'/tmp/probe')
import z3, numpy
from symreal import *
from pygaps.modelling import get_isotherm_model

def run(name, pre_fn, timeout=60000, direction='pl'):
    m = get_isotherm_model(name)
    P = {k: z3.Real(k) for k in m.params}
    m.params = {k: SR(v) for k,v in P.items()}
    p = z3.Real('p')
    pre = pre_fn(P, p, m)
    EX.base = pre
    t0=time.time()
    res = explore(lambda: m.pressure(m.loading(SR(p))))
    for pc, defs, (k, r) in res:
        if k!='ok': print(name,'EXC',repr(r), pc[len(pre):]); continue
        out = r.t if isinstance(r,SR) else toz(r)
        s=z3.Solver(); s.set('timeout',timeout); s.add(*pc,*defs)
        s.add(out != p)
        rr=s.check()
        print(name, 'path', [str(c)[:60] for c in pc[len(pre):]], '->', rr, (s.model() if str(rr)=='sat' else ''), round(time.time()-t0,2),'s')

bounds = lambda P,m: [z3.And(P[k] > lo if lo==0 else P[k]>=lo, True if hi==numpy.inf else P[k] <= hi) for k,(lo,hi) in zip(m.param_names if not isinstance(m.param_names,str) else [m.param_names], m.param_default_bounds) if lo!=-numpy.inf]
run('Henry', lambda P,p,m: bounds(P,m)+[p>=0])
run('Langmuir', lambda P,p,m: bounds(P,m)+[p>=0])
run('BET', lambda P,p,m: bounds(P,m)+[p>0, P['N']*p<1])
run('GAB', lambda P,p,m: bounds(P,m)+[p>0, P['K']*p<1])
run('DSLangmuir', lambda P,p,m: bounds(P,m)+[p>0])
run('Quadratic', lambda P,p,m: bounds(P,m)+[p>0, P['Ka']>0, P['Kb']>0])
