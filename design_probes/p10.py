import sys, time, faulthandler; sys.path.insert(0,'/tmp/probe')
faulthandler.dump_traceback_later(200, exit=True)
import z3, numpy, pandas
from symreal import *
from p6 import mk, pre
import p6
lo,hi=z3.Reals('lo hi')
EX.base = pre+[p6.v1<p6.v2, p6.v1>0]
def run():
    iso=mk()
    return iso.pressure(branch='ads', limits=(SR(lo),SR(hi)))
res=explore(run)
for pc,defs,(k,r) in res:
    print(k, [str(c) for c in pc[len(EX.base):]], r if k=='ok' else repr(r))
