import json, collections, sqlite3
import pygaps
from pygaps.data import ADSORBATE_LIST, DATABASE
print(len(ADSORBATE_LIST))
src=json.load(open('/repo/src/pygaps/data/adsorbates.json'))
print(len(src), sum(len(a.get('alias',[])) for a in src))
owners=collections.defaultdict(set)
for a in ADSORBATE_LIST:
    for al in a.alias: owners[al].add(a.name)
coll={k:v for k,v in owners.items() if len(v)>1}
print('collisions in registry:',coll)
owners2=collections.defaultdict(set)
for a in src:
    als=[x.lower() for x in a.get('alias',[])]+[a['name'].lower()]
    for al in als: owners2[al].add(a['name'])
print('collisions in json:',{k:v for k,v in owners2.items() if len(v)>1})
# names unique?
print(len(set(a.name for a in ADSORBATE_LIST)))
# backend names
bn=[a.properties.get('backend_name') for a in ADSORBATE_LIST]
print(sum(1 for b in bn if b))
# non-lowercase alias? 
print([ (a.name) for a in ADSORBATE_LIST if any(x!=x.lower() for x in a.alias)][:5])
# find by name and alias
bad=[]
for a in ADSORBATE_LIST:
    for al in a.alias+[a.name, a.name.upper()]:
        f=pygaps.Adsorbate.find(al)
        if f is not a: bad.append((al,a.name,f.name))
print('find mismatches',bad[:10], len(bad))
