import sys, time, faulthandler, types, logging; sys.path.insert(0,'/tmp/probe')
logging.disable(logging.CRITICAL)
faulthandler.dump_traceback_later(280, exit=True)
from fakes import *
import symreal
from pygaps.core.modelisotherm import ModelIsotherm
from pygaps.modelling import get_isotherm_model
from pygaps.characterisation import enth_sorp_whittaker as w
import scipy.constants
T=z3.Real('T'); K,nm,n=z3.Reals('K n_m n')
pc_,pt_=z3.Reals('pc_f ptr')
HV=z3.Function('hvapP', z3.RealSort(), z3.RealSort())
class St(FakeState):
    def update(s,pair,a,b): s.last=(pair,toz(a),toz(b))
    def hmolar(s):
        pair,a,b=s.last
        if pair==CP.PQ_INPUTS: return SR(z3.If(b==1, HV(a), 0))   # h_vap(p) - 0
        return super().hmolar()
import pygaps.core.adsorbate as adsmod
def mk():
    ads=fake_adsorbate(); ads._state=St('f')
    iso=ModelIsotherm.__new__(ModelIsotherm)
    iso._material=Material('m'); iso._adsorbate=ads; iso._temperature=SR(T); iso.temperature_unit='K'
    iso.pressure_mode='absolute'; iso.pressure_unit='Pa'; iso.loading_basis='molar'; iso.loading_unit='mmol'; iso.material_basis='mass'; iso.material_unit='g'
    iso.branch='ads'; iso.properties={}
    m=get_isotherm_model('Langmuir'); m.params={'K':SR(K),'n_m':SR(nm)}; m.pressure_range=(0.0,1e9); m.loading_range=(0.0,1e9)
    iso.model=m
    return iso
# p_triple uses CP.CoolProp.PropsSI -> stub
class CPX:
    def __getattr__(s,k): return getattr(CP,k)
    class CoolProp:
        @staticmethod
        def PropsSI(what, name): return SR(pt_)
adsmod.CP=CPX()
st=St('f')
pre=st.assumptions(T)+[T>0,K>0,nm>0,n>0,n<nm,pc_>0,pt_>0,pt_<pc_]
EX.base=pre
def run():
    iso=mk()
    r=w.enthalpy_sorption_whittaker(iso, loading=[SR(n)])
    return r, list(EX.exps)
t0=time.time()
res=explore(run)
print('paths',len(res),round(time.time()-t0,2))
R=toz(scipy.constants.R)
for pc,defs,(k,r) in res:
    if k!='ok': print('EXC',repr(r)[:90]); continue
    (rr,ex)=r
    tail=[str(c)[:45] for c in pc[len(pre):]]
    if not rr['enthalpy_sorption']: print('omitted', tail[-4:]); continue
    h=toz(rr['enthalpy_sorption'][0])
    p=n/(K*(nm-n)); psat=st.PS(T)
    peff=z3.If(p>=pt_,p,pt_)
    lam=z3.Real('lam'); # lam = ln(psat*K)
    s=z3.Solver(); s.set('timeout',60000); s.add(*pc,*defs)
    s.add(*symreal.exp_axioms(ex+[(lam, psat*K)], closure=False))
    s.add(h != (R*T*lam + HV(peff)/1000*1000 + R*T)/1000)
    print('value path', s.check(), tail[-3:], round(time.time()-t0,2))
