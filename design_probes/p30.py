import sys, time, faulthandler; sys.path.insert(0,'/tmp/probe')
faulthandler.dump_traceback_later(280, exit=True)
import z3, numpy, pandas
exec(open('p15.py').read().split("t0=time.time()")[0])
import symreal
def ddx(t, x, logs):
    if z3.eq(t, x): return z3.RealVal(1)
    for (y,arg) in logs:
        if z3.eq(t,y): return ddx(arg,x,logs)/arg
    if z3.is_rational_value(t) or z3.is_int_value(t) or z3.is_const(t): return z3.RealVal(0)
    k=t.decl().kind(); ch=t.children()
    if k==z3.Z3_OP_ADD: return sum((ddx(c,x,logs) for c in ch[1:]), ddx(ch[0],x,logs))
    if k==z3.Z3_OP_SUB:
        r=ddx(ch[0],x,logs)
        for c in ch[1:]: r=r-ddx(c,x,logs)
        return r
    if k==z3.Z3_OP_UMINUS: return -ddx(ch[0],x,logs)
    if k==z3.Z3_OP_MUL:
        r=z3.RealVal(0)
        for i,c in enumerate(ch):
            term=ddx(c,x,logs)
            for j,d in enumerate(ch):
                if j!=i: term=term*d
            r=r+term
        return r
    if k==z3.Z3_OP_DIV:
        a,b=ch; return (ddx(a,x,logs)*b-a*ddx(b,x,logs))/(b*b)
    raise NotImplementedError(t.decl())
def run():
    r=mk().spreading_pressure_at(SR(q))
    return r, list(EX.logs)
t0=time.time()
res=explore(run)
print('paths',len(res))
for pc,defs,(kk,r) in res:
    tail=[str(c) for c in pc[len(pre):]]
    if kk!='ok': print('EXC',repr(r)[:50]); continue
    sp,logs=r
    # which segment is q in?  f(q) linear interpolant oracle
    conds=[]
    for i in range(k-1):
        conds.append((z3.And(q>ps[i],q<ps[i+1]), ns[i]+(ns[i+1]-ns[i])*(q-ps[i])/(ps[i+1]-ps[i])))
    d=ddx(toz(sp),q,logs)
    s=z3.Solver(); s.set('timeout',60000); s.add(*pc,*defs)
    viol=[z3.And(c, q*d!=f) for c,f in conds]+[z3.And(q<ps[0], toz(sp)!=ns[0]/ps[0]*q)]
    s.add(z3.Or(viol))
    print('deriv/henry:', s.check(), [t for t in tail if 'q' in t][:4], round(time.time()-t0,2))
