import z3, time, itertools
R=z3.Real
EXP=z3.Function('exp',z3.RealSort(),z3.RealSort())
def axioms(S0):
    ax=[]; Z=z3.RealVal(0)
    S0=list(S0)
    S1=[]
    for s,t in itertools.combinations_with_replacement(S0,2):
        ax.append(EXP(s+t)==EXP(s)*EXP(t)); S1.append(s+t)
    for s,t in itertools.permutations(S0,2):
        ax.append(EXP(s-t)*EXP(t)==EXP(s)); S1.append(s-t)
    allargs=S0+S1
    for a in allargs: ax.append(EXP(a)>0)
    ax.append(EXP(Z)==1)
    base=S0+[Z]
    n=0
    for a in allargs:
        for b in base:
            if a is b: continue
            ax.append((a<b)==(EXP(a)<EXP(b)))
            ax.append((a==b)==(EXP(a)==EXP(b))); n+=1
    print('axioms',len(ax))
    return ax
def check(name, cons, goal, args):
    s=z3.Solver(); s.set('timeout',300000)
    s.add(*cons); s.add(*axioms(args)); s.add(z3.Not(goal))
    t=time.time(); r=s.check(); print(name, r, round(time.time()-t,2))
    if str(r)=='sat': print(s.model())
K,p=R('K'),R('p')
nm,t=R('nm'),R('t')
lkp,l1,lr,l2=R('lkp'),R('l1'),R('lr'),R('l2')
Kp=K*p
c=[nm>0,K>0,t>0,p>0, EXP(lkp)==Kp]
u=EXP(t*lkp)              # (Kp)^t
c+= [EXP(l1)==1+u]        # l1 = ln(1+u)
d=EXP((1/t)*l1)           # (1+u)^(1/t)
n=nm*Kp/d
r=n/nm
c+=[EXP(lr)==r]           # lr = ln(n/nm)
w=EXP(t*lr)               # (n/nm)^t
c+=[EXP(l2)==1-w]         # requires 1-w>0
e=EXP((1/t)*l2)
out=(n/(nm*K))/e
args=[lkp,t*lkp,l1,(1/t)*l1,lr,t*lr,l2,(1/t)*l2]
check('toth',c+[1-w>0],out==p,args)
