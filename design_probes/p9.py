import sys, time; sys.path.insert(0,'/tmp/probe')
import z3, numpy
from symreal import *
import symreal
from pygaps.modelling import get_isotherm_model
def ddx(t, x):
    if z3.eq(t, x): return z3.RealVal(1)
    if z3.is_rational_value(t) or z3.is_int_value(t): return z3.RealVal(0)
    if z3.is_const(t): return z3.RealVal(0)
    k=t.decl().kind(); ch=t.children()
    if k==z3.Z3_OP_ADD: return sum((ddx(c,x) for c in ch[1:]), ddx(ch[0],x))
    if k==z3.Z3_OP_SUB:
        r=ddx(ch[0],x)
        for c in ch[1:]: r=r-ddx(c,x)
        return r
    if k==z3.Z3_OP_UMINUS: return -ddx(ch[0],x)
    if k==z3.Z3_OP_MUL:
        r=z3.RealVal(0)
        for i,c in enumerate(ch):
            term=ddx(c,x)
            for j,d in enumerate(ch):
                if j!=i: term=term*d
            r=r+term
        return r
    if k==z3.Z3_OP_DIV:
        a,b=ch; return (ddx(a,x)*b-a*ddx(b,x))/(b*b)
    if k==z3.Z3_OP_TO_REAL: return z3.RealVal(0)
    if k==z3.Z3_OP_UNINTERPRETED and t.decl().name()=='ln': return ddx(ch[0],x)/ch[0]
    if k==z3.Z3_OP_UNINTERPRETED and t.decl().name()=='exp': return ddx(ch[0],x)*t
    raise NotImplementedError(t.decl())
def run(name, extra=lambda P,p:[]):
    m = get_isotherm_model(name)
    names = [m.param_names] if isinstance(m.param_names,str) else list(m.param_names)
    P = {k: z3.Real(k) for k in names}
    m.params = {k: SR(v) for k,v in P.items()}
    p = z3.Real('p')
    pre=[P[k]>0 for k in names]+[p>0]+extra(P,p)
    EX.base=pre
    t0=time.time()
    res=explore(lambda: (m.spreading_pressure(SR(p)), m.loading(SR(p)), m.spreading_pressure(SR(z3.RealVal(0))) ))
    for pc,defs,(k,r) in res:
        if k!='ok': print(name,'EXC',repr(r)); continue
        sp,ld,sp0=r
        d=ddx(sp.t,p)
        s=z3.Solver(); s.set('timeout',60000); s.add(*pc,*defs); s.add(p*d != ld.t)
        r1=s.check()
        s=z3.Solver(); s.set('timeout',60000); s.add(*pc,*defs); s.add(symreal.LOG(z3.RealVal(1))==0)
        s.add(z3.simplify(sp0.t) != 0)
        r2=s.check()
        print(name,'deriv:',r1,'zero:',r2, (s.model() if str(r2)=='sat' else ''), round(time.time()-t0,2))
if __name__=="__main__": run('Henry'); run('Langmuir'); run('DSLangmuir'); run('TSLangmuir'); run('Quadratic')
if __name__=="__main__": run('BET', lambda P,p:[P['N']*p<1]); run('GAB', lambda P,p:[P['K']*p<1]); run('TemkinApprox'); run('Freundlich')
