import sys, time, faulthandler; sys.path.insert(0,'/tmp/probe')
faulthandler.dump_traceback_later(280, exit=True)
import z3, numpy
from symreal import *
from pygaps.utilities.math_utilities import split_ads_data
class SI:
    """symbolic int"""
    def __init__(s,t): s.t=t
    def _o(o): return o.t if isinstance(o,SI) else z3.IntVal(int(o))
    def __add__(s,o): return SI(s.t+SI._o(o))
    __radd__=__add__
    def __sub__(s,o): return SI(s.t-SI._o(o))
    def __eq__(s,o): return SB(s.t==SI._o(o))
    def __ne__(s,o): return SB(s.t!=SI._o(o))
    def __hash__(s): return id(s)
    def __index__(s):
        # concretise: fork over feasible values in [lo,hi]
        for v in range(SI.lo, SI.hi+1):
            if EX.branch(s.t==v): return v
        raise Abort('no value')
    __int__=__index__
SI.lo=0; SI.hi=8
k=int(sys.argv[1])
class FakeIndex:
    def __init__(s, labels): s.labels=labels
    def get_loc(s, lab): 
        # label -> position
        for i,l in enumerate(s.labels):
            if (l==lab) if not isinstance(l,SI) else bool(l==lab): return i
        raise KeyError
    def __getitem__(s,i): return s.labels[i]
class FakeCol:
    def __init__(s, vals, index): s.vals=vals; s.index=index
    def idxmax(s):
        # position of first maximum (pandas semantics), returns the *label*
        best=0
        for i in range(1,len(s.vals)):
            if s.vals[i] > s.vals[best]: best=i
        return s.index.labels[best]
class FakeFrame:
    def __init__(s, vals, labels): s.index=FakeIndex(labels); s.col=FakeCol(vals,s.index); s.shape=(len(vals),1)
    def __getitem__(s,key): return s.col
ps=[z3.Real(f'p{i}') for i in range(k)]
i0=z3.Int('i0'); j0=z3.Int('j0')
EX.base=[i0>=0,i0<=5,j0>=0,j0<=5]+[z3.Distinct(*ps)] if k>1 else []
def run():
    a=split_ads_data(FakeFrame([SR(p) for p in ps],[SI(i0+i) for i in range(k)]),'pressure')
    b=split_ads_data(FakeFrame([SR(p) for p in ps],[SI(j0+i) for i in range(k)]),'pressure')
    return list(a), list(b)
t0=time.time()
res=explore(run)
bad=[(str([c for c in pc[len(EX.base):]])[:150],r) for pc,defs,(kk,r) in res if kk=='ok' and r[0]!=r[1]]
exc=[repr(r)[:80] for pc,defs,(kk,r) in res if kk!='ok']
print('paths',len(res),round(time.time()-t0,2),'label-dependent results:',len(bad),'exc',exc[:2])
for b in bad[:3]: print(b)
