from pygaps.utilities.string_utilities import cast_string, _to_string, _is_float, _is_bool, _is_none, _is_list

def _rt_text(s: str) -> object:
    """
    pre: len(s) <= 3
    pre: not _is_none(s) and not _is_bool(s) and not s.isnumeric() and not _is_float(s) and not _is_list(s)
    pre: ',' not in s and chr(10) not in s and chr(39) not in s
    post: _ == s
    """
    return cast_string(_to_string(s))

def _rt_int(i: int) -> object:
    """
    post: _ == i and type(_) is int
    """
    return cast_string(_to_string(i))

def _rt_bool(b: bool) -> object:
    """
    post: _ is b
    """
    return cast_string(_to_string(b))
