from pygaps.units.converter_unit import c_unit, _PRESSURE_UNITS
from pygaps.units.converter_mode import c_temperature, c_pressure
from pygaps.utilities.exceptions import ParameterError

def _unknown_unit_refused(u: str) -> float:
    """
    pre: len(u) <= 5
    pre: u not in _PRESSURE_UNITS
    post: False
    raises: ParameterError
    """
    return c_unit(_PRESSURE_UNITS, 1.0, 'bar', u)

def _temp_units(u: str, v: str) -> float:
    """
    pre: len(u) <= 3 and len(v) <= 3
    post: (u == v) or ('c' in u.lower()) != ('c' in v.lower()) or _ == 300.0
    raises: ParameterError
    """
    return c_temperature(300.0, u, v)
