import logging
logging.disable(logging.CRITICAL)
from pygaps.core.baseisotherm import BaseIsotherm
import inspect
_CTOR = set(BaseIsotherm._unit_params) | {'material','adsorbate','temperature','m','t','a'}
_UNITS = dict(pressure_mode='absolute', pressure_unit='bar', material_basis='mass', material_unit='g', loading_basis='molar', loading_unit='mmol', temperature_unit='K')

def _meta_roundtrip(k: str, v: int) -> bool:
    """
    pre: len(k) <= 4 and k not in _CTOR and k.isidentifier()
    post: _
    """
    iso = BaseIsotherm(material='mat', adsorbate='nitrogen', temperature=77.0, **_UNITS, **{k: v})
    d = iso.to_dict()
    iso2 = BaseIsotherm(**d)
    return d.get(k) == v and iso2.to_dict() == d
