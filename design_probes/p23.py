import sys, time, faulthandler, logging; sys.path.insert(0,'/tmp/probe')
logging.disable(logging.CRITICAL)
faulthandler.dump_traceback_later(280, exit=True)
from fakes import *
from pygaps.characterisation import area_bet
k=3
base_p=[z3.Real(f'rp{i}') for i in range(k)]   # relative pressure (canonical)
base_n=[z3.Real(f'n{i}') for i in range(k)]    # mol/g
T=z3.Real('T')
cap={}
def rec(pressure, loading, cross_section, p_limits=None):
    cap['args']=(list(pressure), list(loading), cross_section, p_limits)
    return (0,0,0,0,0,0,0,0,0)
area_bet.area_BET_raw=rec
def run(units, fp, fn):
    ads=fake_adsorbate(cross_sectional_area=0.162)
    st=ads._state
    ps=[SR(fp(p, st)) for p in base_p]; ns=[SR(fn(n, st)) for n in base_n]
    iso=sym_point_iso(ps, ns, ads, SR(T), units)
    area_bet.area_BET(iso)
    return cap['args'], st
U0=dict(pressure_mode='relative',pressure_unit=None,loading_basis='molar',loading_unit='mol',material_basis='mass',material_unit='g',temperature_unit='K')
U1=dict(pressure_mode='absolute',pressure_unit='kPa',loading_basis='mass',loading_unit='mg',material_basis='mass',material_unit='g',temperature_unit='K')
EX.base=FakeState('f').assumptions(T)+[T>0]+[p>0 for p in base_p]+[n>0 for n in base_n]
t0=time.time()
r0=explore(lambda: run(U0, lambda p,st:p, lambda n,st:n))
r1=explore(lambda: run(U1, lambda p,st: p*st.PS(T)/1000, lambda n,st: n*(st.M*1000)*1000))  # rel->kPa ; mol -> mg (M in kg/mol)
print(len(r0),len(r1), [k_ for _,_,(k_,r) in r0+r1], [repr(r)[:200] for _,_,(k_,r) in r0+r1 if k_!='ok'])
ok0=[x for x in r0 if x[2][0]=='ok'][0]; ok1=[x for x in r1 if x[2][0]=='ok'][0]
(pc0,d0,(_, (a0,st0))),(pc1,d1,(_, (a1,st1)))=ok0,ok1
s=z3.Solver(); s.set('timeout',60000); s.add(*pc0,*d0,*pc1,*d1, *st1.assumptions(T))
diff=[toz(x)!=toz(y) for x,y in zip(a0[0]+a0[1], a1[0]+a1[1])]
s.add(z3.Or(diff))
print('invariance of kernel args:', s.check(), round(time.time()-t0,2), 'cs', a0[2], a1[2])
