import sys, time, faulthandler, types; sys.path.insert(0,'/tmp/probe')
faulthandler.dump_traceback_later(200, exit=True)
import z3, numpy
from symreal import *
from pygaps.iast import pgiast
n=int(sys.argv[1])
SPf=[z3.Function(f'sp{i}',z3.RealSort(),z3.RealSort()) for i in range(n)]
Nf=[z3.Function(f'n{i}',z3.RealSort(),z3.RealSort()) for i in range(n)]
class Iso:
    pressure_mode='absolute'
    def __init__(s,i): s.i=i
    def spreading_pressure_at(s,p,branch='ads'): return SR(SPf[s.i](toz(p)))
    def loading_at(s,p): return SR(Nf[s.i](toz(p)))
    def pressure(s,branch=None): return numpy.array([1e9])
# numpy proxy: zeros -> object dtype
class NP(types.ModuleType):
    def __getattr__(s,k): return getattr(numpy,k)
    def zeros(s,shape,*a,**k): 
        z=numpy.empty(shape,dtype=object); z[...]=0; return z
pgiast.numpy=NP('numpy')
xs=[z3.Real(f'x{i}') for i in range(n-1)]
captured={}
class Res: pass
def root_stub(fun, x0, method=None):
    x=numpy.array([SR(v) for v in xs],dtype=object)
    r=fun(x)
    captured['res']=[toz(v) for v in r]
    EX.defs += [toz(v)==0 for v in r]
    o=Res(); o.success=True; o.x=x; return o
class OPT: root=staticmethod(root_stub)
pgiast.optimize=OPT
ps=[z3.Real(f'pp{i}') for i in range(n)]
pre=[p>0 for p in ps]+[z3.And(x>0,x<1) for x in xs]+[Nf[i](z3.RealVal(1))>0 for i in range(n)]
EX.base=pre
def run():
    return pgiast.iast_point([Iso(i) for i in range(n)], numpy.array([SR(p) for p in ps],dtype=object), warningoff=True, adsorbed_mole_fraction_guess=[1.0/n]*n)
t0=time.time()
res=explore(run)
print('paths',len(res),round(time.time()-t0,2))
for pc,defs,(k,r) in res:
    if k!='ok': print('EXC',repr(r)[:100],[str(c)[:40] for c in pc[len(pre):]]); continue
    L=[toz(v) for v in r]; tot=sum(L[1:],L[0])
    X=[l/tot for l in L]
    s=z3.Solver(); s.set('timeout',30000); s.add(*pc,*defs)
    goal=[z3.Sum(X)==1]+[z3.And(x>=0,x<=1) for x in X]
    # spreading pressures equal at p_i/x_i where x_i are the solver's own fractions
    xfull=xs+[1-z3.Sum(xs)]
    goal+=[SPf[i](ps[i]/xfull[i])==SPf[i+1](ps[i+1]/xfull[i+1]) for i in range(n-1)]
    goal+=[X[i]==xfull[i] for i in range(n)]
    goal+=[tot*z3.Sum([xfull[i]/Nf[i](ps[i]/xfull[i]) for i in range(n)])==1]
    s.add(z3.Not(z3.And(goal)))
    print('ok path', s.check(), [str(c)[:50] for c in pc[len(pre):]], round(time.time()-t0,2))
