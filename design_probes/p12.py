import sys, time, faulthandler, fractions; sys.path.insert(0,'/tmp/probe')
faulthandler.dump_traceback_later(500, exit=True)
import z3, numpy
from symreal import *
import symreal
from pygaps.modelling import get_isotherm_model
F=fractions.Fraction
def run(name, fixed={}, extra=lambda P,p,m:[], init=None):
    m = get_isotherm_model(name)
    if init: init(m)
    names = [m.param_names] if isinstance(m.param_names,str) else list(m.param_names)
    P = {k: (z3.RealVal(str(fixed[k])) if k in fixed else z3.Real(k)) for k in names}
    m.params = {k: (fixed[k] if k in fixed else SR(v)) for k,v in P.items()}
    p = z3.Real('p')
    pre=[P[k]>0 for k in names if k not in fixed]+[p>0]+extra(P,p,m)
    EX.base=pre
    t0=time.time()
    res=explore(lambda: m.pressure(m.loading(SR(p))))
    for pc,defs,(k,r) in res:
        if k!='ok': print(name,fixed,'EXC',repr(r)[:60],[str(c)[:50] for c in pc[len(pre):]][-2:]); continue
        s=z3.Solver(); s.set('timeout',120000); s.add(*pc,*defs); s.add(toz(r)!=p)
        rr=s.check()
        print(name,fixed,'->',rr,(s.model() if str(rr)=='sat' else ''),round(time.time()-t0,2))
run('Freundlich')
for t in [F(1,2),1,2,3]: run('Toth',{'t':t})
run('DR', extra=lambda P,p,m:[p<1], init=lambda m: setattr(m,'minus_rt',SR(-z3.Real('RT'))) )
